/-
  Helper lemmas for the record codec theorems: the per-key value decoder (`decodeValue`,
  `checkReserved`, `ValueOK`), the pairs loop (`decodePairs`) and list-item framing facts.
-/
import EnrVerif.Model.Spec
import EnrVerif.Proofs.RlpLemmas
import EnrVerif.Proofs.MapLemmas

namespace EnrVerif

/-! ### small facts about keys -/

theorem isPortKey_kId : isPortKey kId = false := by decide

theorem isPortKey_ne_kId {key : Bytes} (h : isPortKey key = true) : key ≠ kId := by
  intro e; rw [e, isPortKey_kId] at h; cases h

theorem two64_256 : (2 : Nat) ^ 64 = 256 ^ 8 := by decide

/-! ### framing facts -/

theorem encBytes_length_ge (bs : Bytes) : bs.length ≤ (encBytes bs).length := by
  unfold encBytes
  split
  · split <;> simp
  · simp only [List.length_append]; omega

theorem encodeHeader_true_take {h : Header} {rest : Bytes} (hlen : h.len ≤ rest.length) :
    encodeHeader true h.len ++ rest.take h.len = encList (rest.take h.len) := by
  unfold encList
  rw [List.length_take, Nat.min_eq_left hlen]

/-- The framed item returned by the generic (unknown key) branch of the decoder. -/
theorem header_item_reencode (buf : Bytes) (h : Header) (r : Bytes)
    (hd : decodeHeader buf = .ok (h, r)) :
    buf = (if h.list then encodeHeader true h.len ++ r.take h.len else encBytes (r.take h.len))
            ++ r.drop h.len := by
  cases hl : h.list with
  | true =>
    have h1 : decodeBytes buf true = .ok (r.take h.len, r.drop h.len) := by
      rw [decodeBytes_of_header true hd, hl]; simp
    have h2 := decodeBytes_true_reencode _ _ _ h1
    have hlen := (decodeHeader_rest_le buf h r hd).2
    simp only [if_true]
    rw [encodeHeader_true_take hlen]
    exact h2
  | false =>
    have h1 : decodeBytes buf false = .ok (r.take h.len, r.drop h.len) := by
      rw [decodeBytes_of_header false hd, hl]; simp
    simpa using decodeBytes_false_reencode _ _ _ h1

/-! ### A. values -/

theorem decodeValue_reencode (key payload v rest : Bytes)
    (h : decodeValue key payload = .ok (v, rest)) : payload = v ++ rest := by
  unfold decodeValue at h
  split at h
  · split at h
    · cases h
    · rename_i i r hh
      split at h
      · simp only [Except.ok.injEq, Prod.mk.injEq] at h
        obtain ⟨rfl, rfl⟩ := h
        exact decodeBytes_false_reencode _ _ _ hh
      · cases h
  · split at h
    · split at h
      · cases h
      · rename_i p r hh
        simp only [Except.ok.injEq, Prod.mk.injEq] at h
        obtain ⟨rfl, rfl⟩ := h
        exact (decodeUint_reencode _ _ _ _ hh).1
    · split at h
      · split at h
        · cases h
        · rename_i ip r hh
          simp only [Except.ok.injEq, Prod.mk.injEq] at h
          obtain ⟨rfl, rfl⟩ := h
          exact (decodeFixed_reencode _ _ _ _ hh).1
      · split at h
        · split at h
          · cases h
          · rename_i ip r hh
            simp only [Except.ok.injEq, Prod.mk.injEq] at h
            obtain ⟨rfl, rfl⟩ := h
            exact (decodeFixed_reencode _ _ _ _ hh).1
        · split at h
          · split at h
            · cases h
            · rename_i k r hh
              simp only [Except.ok.injEq, Prod.mk.injEq] at h
              obtain ⟨rfl, rfl⟩ := h
              exact decodeBytes_false_reencode _ _ _ hh
          · split at h
            · cases h
            · rename_i hd r hh
              have := header_item_reencode _ _ _ hh
              simp only at h
              split at h
              · rename_i hl
                simp only [Except.ok.injEq, Prod.mk.injEq] at h
                obtain ⟨rfl, rfl⟩ := h
                rw [if_pos hl] at this
                exact this
              · rename_i hl
                simp only [Except.ok.injEq, Prod.mk.injEq] at h
                obtain ⟨rfl, rfl⟩ := h
                rw [if_neg hl] at this
                exact this

theorem decodeValue_valueOK (key payload v rest : Bytes)
    (h : decodeValue key payload = .ok (v, rest)) : ValueOK key v := by
  unfold decodeValue at h
  unfold ValueOK
  split at h
  · rename_i hk
    rw [if_pos hk]
    split at h
    · cases h
    · rename_i i r hh
      split at h
      · rename_i hi
        simp only [Except.ok.injEq, Prod.mk.injEq] at h
        rw [← h.1, hi]
      · cases h
  · rename_i hk
    rw [if_neg hk]
    split at h
    · rename_i hp
      rw [if_pos hp]
      split at h
      · cases h
      · rename_i p r hh
        simp only [Except.ok.injEq, Prod.mk.injEq] at h
        exact ⟨p, (decodeUint_reencode _ _ _ _ hh).2, h.1.symm⟩
    · rename_i hp
      rw [if_neg hp]
      split at h
      · rename_i hip
        rw [if_pos hip]
        split at h
        · cases h
        · rename_i ip r hh
          simp only [Except.ok.injEq, Prod.mk.injEq] at h
          exact ⟨ip, (decodeFixed_reencode _ _ _ _ hh).2, h.1.symm⟩
      · rename_i hip
        rw [if_neg hip]
        split at h
        · rename_i hip6
          rw [if_pos hip6]
          split at h
          · cases h
          · rename_i ip r hh
            simp only [Except.ok.injEq, Prod.mk.injEq] at h
            exact ⟨ip, (decodeFixed_reencode _ _ _ _ hh).2, h.1.symm⟩
        · rename_i hip6
          rw [if_neg hip6]
          split at h
          · rename_i hpk
            rw [if_pos (by simpa using hpk)]
            split at h
            · cases h
            · rename_i k r hh
              simp only [Except.ok.injEq, Prod.mk.injEq] at h
              exact ⟨k, decodeBytes_payload_length_lt _ _ _ _ hh, h.1.symm⟩
          · rename_i hpk
            rw [if_neg (by simpa using hpk)]
            split at h
            · cases h
            · rename_i hd r hh
              have hlt := decodeHeader_len_lt _ _ _ hh
              have hlen := (decodeHeader_rest_le _ _ _ hh).2
              have htl : (List.take hd.len r).length < 2 ^ 64 := by
                rw [List.length_take]; omega
              simp only at h
              split at h
              · simp only [Except.ok.injEq, Prod.mk.injEq] at h
                right
                refine ⟨r.take hd.len, htl, ?_⟩
                rw [← h.1, encodeHeader_true_take hlen]
              · simp only [Except.ok.injEq, Prod.mk.injEq] at h
                left
                exact ⟨r.take hd.len, htl, h.1.symm⟩

theorem decodeValue_of_valueOK (key v rest : Bytes) (h : ValueOK key v) :
    decodeValue key (v ++ rest) = .ok (v, rest) := by
  unfold ValueOK at h
  unfold decodeValue
  split at h
  · rename_i hk
    rw [if_pos hk, h, decodeBytes_encBytes _ _ (by decide)]
    simp
  · rename_i hk
    rw [if_neg hk]
    split at h
    · rename_i hp
      obtain ⟨p, hp2, rfl⟩ := h
      rw [if_pos hp, decodeUint_encUint 2 p rest (by omega) (by omega)]
    · rename_i hp
      rw [if_neg hp]
      split at h
      · rename_i hip
        obtain ⟨bs, hbs, rfl⟩ := h
        rw [if_pos hip, decodeFixed_encBytes 4 bs rest hbs (by omega)]
      · rename_i hip
        rw [if_neg hip]
        split at h
        · rename_i hip6
          obtain ⟨bs, hbs, rfl⟩ := h
          rw [if_pos hip6, decodeFixed_encBytes 16 bs rest hbs (by omega)]
        · rename_i hip6
          rw [if_neg hip6]
          split at h
          · rename_i hpk
            obtain ⟨bs, hbs, rfl⟩ := h
            rw [if_pos (by simpa using hpk), decodeBytes_encBytes _ _ hbs]
          · rename_i hpk
            rw [if_neg (by simpa using hpk)]
            rcases h with ⟨bs, hbs, rfl⟩ | ⟨p, hp2, rfl⟩
            · rw [decodeHeader_encBytes bs rest hbs]
              simp
            · rw [decodeHeader_encList p rest hp2]
              simp [encList]

theorem decodeValue_append (key payload suf v rest : Bytes)
    (h : decodeValue key payload = .ok (v, rest)) :
    decodeValue key (payload ++ suf) = .ok (v, rest ++ suf) := by
  have h1 := decodeValue_reencode _ _ _ _ h
  have h2 := decodeValue_valueOK _ _ _ _ h
  rw [h1, List.append_assoc]
  exact decodeValue_of_valueOK key v (rest ++ suf) h2

/-! ### `checkReserved` (the builder/mutator-side check) agrees with `ValueOK` -/

private theorem fin_ok_inv {rest : Bytes} {e : EnrErr}
    (h : (if rest.isEmpty = true then Except.ok () else Except.error e : Except EnrErr Unit)
          = .ok ()) : rest = [] := by
  split at h
  · rename_i hr; simpa using hr
  · cases h

theorem checkReserved_valueOK (key v : Bytes) (h : checkReserved key v = .ok ()) :
    ValueOK key v := by
  unfold checkReserved at h
  simp only at h
  unfold ValueOK
  split at h
  · rename_i hp
    rw [if_neg (isPortKey_ne_kId hp), if_pos hp]
    split at h
    · cases h
    · rename_i p r hh
      have hr := fin_ok_inv h
      subst hr
      obtain ⟨h1, h2⟩ := decodeUint_reencode _ _ _ _ hh
      exact ⟨p, h2, by simpa using h1⟩
  · rename_i hp
    split at h
    · rename_i hk
      rw [if_pos hk]
      split at h
      · cases h
      · rename_i i r hh
        split at h
        · rename_i hi
          have hr := fin_ok_inv h
          subst hr
          subst hi
          simpa using decodeBytes_false_reencode _ _ _ hh
        · cases h
    · rename_i hk
      rw [if_neg hk, if_neg hp]
      split at h
      · rename_i hip
        rw [if_pos hip]
        split at h
        · cases h
        · rename_i ip r hh
          have hr := fin_ok_inv h
          subst hr
          obtain ⟨h1, h2⟩ := decodeFixed_reencode _ _ _ _ hh
          exact ⟨ip, h2, by simpa using h1⟩
      · rename_i hip
        rw [if_neg hip]
        split at h
        · rename_i hip6
          rw [if_pos hip6]
          split at h
          · cases h
          · rename_i ip r hh
            have hr := fin_ok_inv h
            subst hr
            obtain ⟨h1, h2⟩ := decodeFixed_reencode _ _ _ _ hh
            exact ⟨ip, h2, by simpa using h1⟩
        · rename_i hip6
          rw [if_neg hip6]
          split at h
          · rename_i hpk
            rw [if_pos (by simpa using hpk)]
            split at h
            · cases h
            · rename_i k r hh
              have hr := fin_ok_inv h
              subst hr
              exact ⟨k, decodeBytes_payload_length_lt _ _ _ _ hh,
                by simpa using decodeBytes_false_reencode _ _ _ hh⟩
          · rename_i hpk
            rw [if_neg (by simpa using hpk)]
            split at h
            · cases h
            · rename_i hd r hh
              have hr := fin_ok_inv h
              have hre := header_item_reencode _ _ _ hh
              rw [hr, List.append_nil] at hre
              have hlt := decodeHeader_len_lt _ _ _ hh
              have hlen := (decodeHeader_rest_le _ _ _ hh).2
              have htl : (List.take hd.len r).length < 2 ^ 64 := by
                rw [List.length_take]; omega
              cases hl : hd.list with
              | true =>
                rw [hl, if_pos rfl, encodeHeader_true_take hlen] at hre
                exact Or.inr ⟨_, htl, hre⟩
              | false =>
                rw [hl] at hre
                exact Or.inl ⟨_, htl, by simpa using hre⟩

theorem valueOK_checkReserved (key v : Bytes) (h : ValueOK key v) :
    checkReserved key v = .ok () := by
  unfold ValueOK at h
  unfold checkReserved
  simp only
  split at h
  · rename_i hk
    subst hk
    rw [if_neg (by rw [isPortKey_kId]; simp), if_pos rfl]
    have := decodeBytes_encBytes vV4 [] (by decide)
    rw [List.append_nil] at this
    rw [h, this]
    simp
  · rename_i hk
    split at h
    · rename_i hp
      obtain ⟨p, hp2, rfl⟩ := h
      have := decodeUint_encUint 2 p [] (by omega) (by omega)
      rw [List.append_nil] at this
      rw [if_pos hp, this]
      simp
    · rename_i hp
      rw [if_neg hp, if_neg hk]
      split at h
      · rename_i hip
        obtain ⟨bs, hbs, rfl⟩ := h
        have := decodeFixed_encBytes 4 bs [] hbs (by omega)
        rw [List.append_nil] at this
        rw [if_pos hip, this]
        simp
      · rename_i hip
        rw [if_neg hip]
        split at h
        · rename_i hip6
          obtain ⟨bs, hbs, rfl⟩ := h
          have := decodeFixed_encBytes 16 bs [] hbs (by omega)
          rw [List.append_nil] at this
          rw [if_pos hip6, this]
          simp
        · rename_i hip6
          rw [if_neg hip6]
          split at h
          · rename_i hpk
            obtain ⟨bs, hbs, rfl⟩ := h
            have := decodeBytes_encBytes bs [] hbs
            rw [List.append_nil] at this
            rw [if_pos (by simpa using hpk), this]
            simp
          · rename_i hpk
            rw [if_neg (by simpa using hpk)]
            rcases h with ⟨bs, hbs, rfl⟩ | ⟨p, hp2, rfl⟩
            · have := decodeHeader_encBytes bs [] hbs
              rw [List.append_nil, List.append_nil] at this
              rw [this]
              simp
            · have := decodeHeader_encList p [] hp2
              rw [List.append_nil, List.append_nil] at this
              rw [this]
              simp

theorem valueOK_isItem (key v : Bytes) (h : ValueOK key v) : IsItem v := by
  unfold ValueOK at h
  split at h
  · exact Or.inl ⟨vV4, by decide, h⟩
  · split at h
    · obtain ⟨p, hp, rfl⟩ := h
      exact Or.inl ⟨natToBe p, natToBe_length_lt_two64 p (by omega), rfl⟩
    · split at h
      · obtain ⟨bs, hbs, rfl⟩ := h
        exact Or.inl ⟨bs, by omega, rfl⟩
      · split at h
        · obtain ⟨bs, hbs, rfl⟩ := h
          exact Or.inl ⟨bs, by omega, rfl⟩
        · split at h
          · obtain ⟨bs, hbs, rfl⟩ := h
            exact Or.inl ⟨bs, hbs, rfl⟩
          · exact h

theorem isItem_ne_nil {v : Bytes} (h : IsItem v) : v ≠ [] := by
  rcases h with ⟨bs, _, rfl⟩ | ⟨p, _, rfl⟩
  · exact encBytes_ne_nil bs
  · unfold encList
    intro h
    exact encodeHeader_ne_nil true p.length (List.append_eq_nil_iff.mp h).1

theorem valueOK_ne_nil {key v : Bytes} (h : ValueOK key v) : v ≠ [] :=
  isItem_ne_nil (valueOK_isItem key v h)

/-! ### B. the pairs loop -/

theorem pairsBytes_append (a b : Content) :
    Record.pairsBytes (a ++ b) = Record.pairsBytes a ++ Record.pairsBytes b := by
  induction a with
  | nil => rfl
  | cons p a ih =>
    obtain ⟨k, v⟩ := p
    simp only [List.cons_append, Record.pairsBytes, ih, List.append_assoc]

theorem decodePairs_spec (payload : Bytes) (prev : Option Bytes) (acc c : Content)
    (h : decodePairs payload prev acc = .ok c)
    (hs : Map.Sorted acc)
    (hprev : ∀ p, prev = some p → ∀ k ∈ Map.keys acc, bytesLt k p = true ∨ k = p)
    (hnone : prev = none → acc = []) :
    ∃ c', c = acc ++ c' ∧ Map.Sorted c ∧ Record.pairsBytes c' = payload ∧
      ∀ k v, (k, v) ∈ c' → k.length < 2 ^ 64 ∧ ValueOK k v := by
  fun_induction decodePairs payload prev acc with
  | case1 payload prev acc hempty =>
    simp only [Except.ok.injEq] at h
    subst h
    refine ⟨[], by simp, hs, ?_, by simp⟩
    have : payload = [] := by simpa using hempty
    rw [this]; rfl
  | case2 => cases h
  | case3 => cases h
  | case4 => cases h
  | case5 payload prev acc hne key rest hk hord value rest' hv ih =>
    -- all keys so far are strictly below the new key
    have hlt : ∀ k' ∈ Map.keys acc, bytesLt k' key = true := by
      intro k' hk'
      cases prev with
      | none => rw [hnone rfl] at hk'; simp at hk'
      | some p =>
        have hpk : bytesLt p key = true := by simpa using hord
        rcases hprev p rfl k' hk' with h1 | h1
        · exact Map.lt_trans h1 hpk
        · rw [h1]; exact hpk
    have hins := Map.insert_last acc key value hs hlt
    have hs' : Map.Sorted (Map.insert acc key value) := Map.sorted_insert _ _ _ hs
    obtain ⟨c'', hc, hsc, hpb, hok⟩ := ih h hs'
      (by
        intro p hp k hk
        simp only [Option.some.injEq] at hp
        subst hp
        rcases (Map.mem_keys_insert acc key value k).mp hk with e | hm
        · exact Or.inr e
        · exact Or.inl (hlt k hm))
      (by intro hh; cases hh)
    refine ⟨(key, value) :: c'', ?_, hsc, ?_, ?_⟩
    · rw [hc, hins]; simp
    · have h1 := decodeBytes_false_reencode _ _ _ hk
      have h2 := decodeValue_reencode _ _ _ _ hv
      simp only [Record.pairsBytes]
      rw [hpb, h1, h2, List.append_assoc]
    · intro k v hm
      rcases List.mem_cons.mp hm with e | hm'
      · injection e with e1 e2
        subst e1; subst e2
        exact ⟨decodeBytes_payload_length_lt _ _ _ _ hk, decodeValue_valueOK _ _ _ _ hv⟩
      · exact hok k v hm'

theorem decodePairs_nil_spec (payload : Bytes) (c : Content)
    (h : decodePairs payload none [] = .ok c) :
    ContentOK c ∧ Record.pairsBytes c = payload := by
  obtain ⟨c', hc, hs, hpb, hok⟩ := decodePairs_spec payload none [] c h trivial
    (by intro p hp; cases hp) (fun _ => rfl)
  simp only [List.nil_append] at hc
  subst hc
  exact ⟨⟨hs, hok⟩, hpb⟩

theorem pairsBytes_cons_ne_nil (k v : Bytes) (c : Content) :
    Record.pairsBytes ((k, v) :: c) ≠ [] := by
  simp only [Record.pairsBytes]
  intro h
  have := (List.append_eq_nil_iff.mp (List.append_eq_nil_iff.mp h).1).1
  exact encBytes_ne_nil k this

theorem decodePairs_complete_gen (c' : Content) : ∀ (prev : Option Bytes) (acc : Content),
    Map.Sorted acc → Map.Sorted c' →
    (∀ k v, (k, v) ∈ c' → k.length < 2 ^ 64 ∧ ValueOK k v) →
    (∀ p, prev = some p → ∀ k ∈ Map.keys acc, bytesLt k p = true ∨ k = p) →
    (∀ p, prev = some p → ∀ k ∈ Map.keys c', bytesLt p k = true) →
    (prev = none → acc = []) →
    decodePairs (Record.pairsBytes c') prev acc = .ok (acc ++ c') := by
  induction c' with
  | nil =>
    intro prev acc _ _ _ _ _ _
    rw [decodePairs]
    simp [Record.pairsBytes]
  | cons q c'' ih =>
    obtain ⟨key, value⟩ := q
    intro prev acc hs hsc hok hprev hnext hnone
    have hne := pairsBytes_cons_ne_nil key value c''
    obtain ⟨hkl, hvok⟩ := hok key value List.mem_cons_self
    have hk : decodeBytes (Record.pairsBytes ((key, value) :: c'')) false =
        .ok (key, value ++ Record.pairsBytes c'') := by
      simp only [Record.pairsBytes, List.append_assoc]
      exact decodeBytes_encBytes key _ hkl
    have hv := decodeValue_of_valueOK key value (Record.pairsBytes c'') hvok
    have hlt : ∀ k' ∈ Map.keys acc, bytesLt k' key = true := by
      intro k' hk'
      cases prev with
      | none => rw [hnone rfl] at hk'; simp at hk'
      | some p =>
        have hpk : bytesLt p key = true := hnext p rfl key (by simp)
        rcases hprev p rfl k' hk' with h1 | h1
        · exact Map.lt_trans h1 hpk
        · rw [h1]; exact hpk
    have hins := Map.insert_last acc key value hs hlt
    rw [Map.Sorted_cons_iff] at hsc
    have hrec := ih (some key) (acc ++ [(key, value)])
      (Map.sorted_append_last acc key value hs hlt) hsc.2
      (fun k v hm => hok k v (List.mem_cons_of_mem _ hm))
      (by
        intro p hp k hk
        simp only [Option.some.injEq] at hp
        subst hp
        simp only [Map.keys_append, Map.keys_cons, Map.keys_nil, List.mem_append,
          List.mem_singleton] at hk
        rcases hk with hm | e
        · exact Or.inl (hlt k hm)
        · exact Or.inr e)
      (by
        intro p hp k hk
        simp only [Option.some.injEq] at hp
        subst hp
        exact hsc.1 k hk)
      (by intro hh; cases hh)
    rw [decodePairs]
    rw [if_neg (by simpa using hne)]
    split
    · rename_i e he; rw [hk] at he; cases he
    · rename_i key' rest' hk'
      rw [hk] at hk'
      simp only [Except.ok.injEq, Prod.mk.injEq] at hk'
      obtain ⟨rfl, rfl⟩ := hk'
      rw [if_neg (by
        cases prev with
        | none => simp
        | some p => simp [hnext p rfl key (by simp)])]
      split
      · rename_i e he; rw [hv] at he; cases he
      · rename_i value' rest'' hv'
        rw [hv] at hv'
        simp only [Except.ok.injEq, Prod.mk.injEq] at hv'
        obtain ⟨rfl, rfl⟩ := hv'
        rw [hins, hrec]
        simp

theorem decodePairs_complete (c : Content) (h : ContentOK c) :
    decodePairs (Record.pairsBytes c) none [] = .ok c := by
  have := decodePairs_complete_gen c none [] trivial h.1 h.2
    (by intro p hp; cases hp) (by intro p hp; cases hp) (fun _ => rfl)
  simpa using this

/-! ### C. whole record: helper lemmas -/

theorem encList_length_strictMono (p q : Bytes) (h : p.length < q.length) :
    (encList p).length < (encList q).length := by
  rw [encList_length, encList_length]
  have := encodeHeader_length_mono true p.length q.length (by omega)
  omega

theorem encList_injective {p q : Bytes} (h : encList p = encList q) : p = q := by
  have hl : p.length = q.length := by
    have h1 := congrArg List.length h
    rcases Nat.lt_trichotomy p.length q.length with h2 | h2 | h2
    · have := encList_length_strictMono p q h2; omega
    · exact h2
    · have := encList_length_strictMono q p h2; omega
  unfold encList at h
  rw [hl] at h
  exact List.append_cancel_left h

theorem decode_encList_eq (S : Scheme) (payload rest : Bytes) (hl : payload.length < 2 ^ 64) :
    decode S (encList payload ++ rest) =
      if (encList payload).length > MAX_ENR_SIZE then .error (.custom .exceedsMaxSize)
      else match decodeBody S payload with
        | .error e => .error e
        | .ok r => .ok (r, rest) := by
  unfold decode
  rw [decodeHeader_encList payload rest hl, decodeBytes_encList payload rest hl]
  simp only
  have : (encList payload ++ rest).length - (payload ++ rest).length + payload.length
      = (encList payload).length := by
    rw [encList_length]
    simp only [List.length_append, encList_length]
    omega
  rw [this]
  rfl

theorem decode_ok_inv (S : Scheme) (buf : Bytes) (r : Record) (rest : Bytes)
    (h : decode S buf = .ok (r, rest)) :
    ∃ payload, buf = encList payload ++ rest ∧ payload.length < 2 ^ 64 ∧
      (encList payload).length ≤ MAX_ENR_SIZE ∧ decodeBody S payload = .ok r := by
  have h0 := h
  unfold decode at h
  split at h
  · cases h
  · rename_i hd item hh
    split at h
    · cases h
    · split at h
      · cases h
      · rename_i payload rest' hb
        have hbuf := decodeBytes_true_reencode _ _ _ hb
        have hpl := decodeBytes_payload_length_lt _ _ _ _ hb
        split at h
        · cases h
        · rename_i r' hbody
          simp only [Except.ok.injEq, Prod.mk.injEq] at h
          obtain ⟨rfl, rfl⟩ := h
          refine ⟨payload, hbuf, hpl, ?_, hbody⟩
          rw [hbuf, decode_encList_eq S payload rest' hpl] at h0
          split at h0
          · cases h0
          · omega

theorem getBytes_kId_of_lookup (r : Record)
    (h : Map.lookup r.content kId = some (encBytes vV4)) : r.id = some vV4 := by
  unfold Record.id Record.getBytes Record.getRaw
  rw [h]
  have := decodeBytes_encBytes vV4 [] (by decide)
  rw [List.append_nil] at this
  simp only [this]

theorem verify_ok_true_inv (S : Scheme) (r : Record) (hc : ContentOK r.content)
    (h : r.verify S = .ok true) :
    Map.lookup r.content kId = some (encBytes vV4) ∧
    ∃ pk, S.enrToPublic r.content = .ok pk ∧ S.verify pk r.rlpContent r.sig = true := by
  unfold Record.verify at h
  split at h
  · cases h
  · rename_i pk hpk
    split at h
    · rename_i i hi
      split at h
      · simp only [Res.ok.injEq] at h
        refine ⟨?_, pk, hpk, h⟩
        unfold Record.id Record.getBytes Record.getRaw at hi
        split at hi
        · cases hi
        · rename_i v hv
          have := (hc.2 kId v (Map.lookup_mem _ _ _ hv)).2
          unfold ValueOK at this
          rw [if_pos rfl] at this
          rw [hv, this]
      · simp at h
    · simp at h

theorem verify_of_valid (S : Scheme) (r : Record) (pk : S.PK)
    (hid : Map.lookup r.content kId = some (encBytes vV4))
    (hpk : S.enrToPublic r.content = .ok pk)
    (hv : S.verify pk r.rlpContent r.sig = true) : r.verify S = .ok true := by
  unfold Record.verify
  rw [hpk]
  simp only [getBytes_kId_of_lookup r hid, if_true, hv]

theorem decodeBody_ok_inv (S : Scheme) (payload : Bytes) (r : Record)
    (h : decodeBody S payload = .ok r) :
    payload = encBytes r.sig ++ encUint r.seq ++ Record.pairsBytes r.content ∧
    r.sig.length < 2 ^ 64 ∧ r.seq < 2 ^ 64 ∧ ContentOK r.content ∧ r.verify S = .ok true ∧
    ∃ pk, S.enrToPublic r.content = .ok pk ∧ r.nodeId = nodeIdOf S pk := by
  unfold decodeBody at h
  split at h
  · cases h
  · split at h
    · cases h
    · rename_i sig p1 hsig
      split at h
      · cases h
      · split at h
        · cases h
        · rename_i seq p2 hseq
          split at h
          · cases h
          · rename_i content hpairs
            split at h
            · cases h
            · rename_i pk hpk
              simp only at h
              split at h
              · rename_i hver
                simp only [Except.ok.injEq] at h
                subst h
                obtain ⟨hcok, hpb⟩ := decodePairs_nil_spec _ _ hpairs
                obtain ⟨hp1, hseqlt⟩ := decodeUint_reencode _ _ _ _ hseq
                have hp := decodeBytes_false_reencode _ _ _ hsig
                refine ⟨?_, decodeBytes_payload_length_lt _ _ _ _ hsig, ?_, hcok, hver, pk, hpk, rfl⟩
                · simp only
                  rw [hpb, List.append_assoc, ← hp1, ← hp]
                · simp only; rw [two64_256]; exact hseqlt
              · cases h

theorem decodeBody_of_valid (S : Scheme) (r : Record) (h : Valid S r) :
    decodeBody S (encBytes r.sig ++ encUint r.seq ++ Record.pairsBytes r.content) = .ok r := by
  obtain ⟨pk, hpk, hnode, hver⟩ := h.authentic
  unfold decodeBody
  rw [List.append_assoc]
  rw [if_neg (by simp [encBytes_ne_nil])]
  rw [decodeBytes_encBytes _ _ h.sig_len]
  simp only
  rw [if_neg (by simp [encUint, encBytes_ne_nil])]
  rw [decodeUint_encUint 8 r.seq _ (by omega) (by rw [← two64_256]; exact h.seq_lt)]
  simp only
  rw [decodePairs_complete _ h.content]
  simp only
  rw [hpk]
  simp only
  have hr : ({ seq := r.seq, nodeId := nodeIdOf S pk, content := r.content, sig := r.sig } : Record)
      = r := by
    cases r; simp only at hnode; simp [hnode]
  rw [hr, verify_of_valid S r pk h.id_v4 hpk hver]

end EnrVerif
