/-
  Lemmas on the UTF-8 model (`EnrVerif/Model/Utf8.lean`): ASCII is untouched, well-formed input is
  untouched, and the result of the lossy conversion is always well-formed.
-/
import EnrVerif.Model.Utf8

namespace EnrVerif

/-! ### Unfolding -/

@[simp] theorem utf8Lossy_nil : utf8Lossy [] = [] := rfl

@[simp] theorem utf8Valid_nil : utf8Valid [] = true := rfl

theorem utf8Lossy_cons_ascii (c : UInt8) (r : Bytes) (h : c.toNat < 0x80) :
    utf8Lossy (c :: r) = c :: utf8Lossy r := by
  rw [utf8Lossy.eq_def]; simp [h]

theorem utf8Valid_cons_ascii (c : UInt8) (r : Bytes) (h : c.toNat < 0x80) :
    utf8Valid (c :: r) = utf8Valid r := by
  rw [utf8Valid.eq_def]; simp [h]

theorem utf8Valid_cons2 (b0 b1 : UInt8) (r : Bytes) (h0 : ¬ b0.toNat < 0x80)
    (h2 : utf8IsLead2 b0 = true) (c1 : utf8IsCont b1 = true) :
    utf8Valid (b0 :: b1 :: r) = utf8Valid r := by
  rw [utf8Valid.eq_def]; simp [h0, h2, c1]

theorem utf8Valid_cons3 (b0 b1 b2 : UInt8) (r : Bytes) (h0 : ¬ b0.toNat < 0x80)
    (h2 : ¬ utf8IsLead2 b0 = true) (h3 : utf8IsLead3 b0 = true) (c1 : utf8Second3 b0 b1 = true)
    (c2 : utf8IsCont b2 = true) :
    utf8Valid (b0 :: b1 :: b2 :: r) = utf8Valid r := by
  rw [utf8Valid.eq_def]; simp [h0, h2, h3, c1, c2]

theorem utf8Valid_cons4 (b0 b1 b2 b3 : UInt8) (r : Bytes) (h0 : ¬ b0.toNat < 0x80)
    (h2 : ¬ utf8IsLead2 b0 = true) (h3 : ¬ utf8IsLead3 b0 = true) (h4 : utf8IsLead4 b0 = true)
    (c1 : utf8Second4 b0 b1 = true) (c2 : utf8IsCont b2 = true) (c3 : utf8IsCont b3 = true) :
    utf8Valid (b0 :: b1 :: b2 :: b3 :: r) = utf8Valid r := by
  rw [utf8Valid.eq_def]; simp [h0, h2, h3, h4, c1, c2, c3]

/-- U+FFFD in front does not change well-formedness. -/
theorem utf8Valid_repl_append (x : Bytes) : utf8Valid (utf8Repl ++ x) = utf8Valid x := by
  rw [utf8Repl, List.cons_append, List.cons_append, List.cons_append, List.nil_append,
    utf8Valid.eq_def]
  simp [utf8IsLead2, utf8IsLead3, utf8Second3, utf8IsCont]

theorem utf8Valid_repl : utf8Valid utf8Repl = true := by
  simpa using utf8Valid_repl_append []

/-! ### ASCII -/

theorem utf8Lossy_append_ascii (a b : Bytes) (h : ∀ c ∈ a, c.toNat < 0x80) :
    utf8Lossy (a ++ b) = a ++ utf8Lossy b := by
  induction a with
  | nil => rfl
  | cons c r ih =>
    have hc : c.toNat < 0x80 := h c (by simp)
    have hr : ∀ d ∈ r, d.toNat < 0x80 := fun d hd => h d (by simp [hd])
    simp [utf8Lossy_cons_ascii _ _ hc, ih hr]

theorem utf8Valid_append_ascii (a b : Bytes) (h : ∀ c ∈ a, c.toNat < 0x80) :
    utf8Valid (a ++ b) = utf8Valid b := by
  induction a with
  | nil => rfl
  | cons c r ih =>
    have hc : c.toNat < 0x80 := h c (by simp)
    have hr : ∀ d ∈ r, d.toNat < 0x80 := fun d hd => h d (by simp [hd])
    simp [utf8Valid_cons_ascii _ _ hc, ih hr]

theorem utf8Lossy_ascii (b : Bytes) (h : ∀ c ∈ b, c.toNat < 0x80) : utf8Lossy b = b := by
  simpa using utf8Lossy_append_ascii b [] h

theorem utf8Valid_ascii (b : Bytes) (h : ∀ c ∈ b, c.toNat < 0x80) : utf8Valid b = true := by
  simpa using utf8Valid_append_ascii b [] h

/-! ### Well-formed input is copied -/

theorem utf8Lossy_of_valid (b : Bytes) : utf8Valid b = true → utf8Lossy b = b := by
  induction b using utf8Valid.induct with
  | case1 => intro _; rfl
  | case2 b0 r0 h ih =>
    intro hv
    rw [utf8Valid_cons_ascii _ _ h] at hv
    rw [utf8Lossy_cons_ascii _ _ h, ih hv]
  | case3 b0 h0 h2 b1 r1 ih =>
    intro hv
    rw [utf8Valid.eq_def] at hv; simp [h0, h2] at hv
    rw [utf8Lossy.eq_def]; simp [h0, h2, hv.1, ih hv.2]
  | case4 b0 h0 h2 =>
    intro hv
    rw [utf8Valid.eq_def] at hv; simp [h0, h2] at hv
  | case5 b0 h0 h2 h3 b1 b2 r2 ih =>
    intro hv
    rw [utf8Valid.eq_def] at hv; simp [h0, h2, h3] at hv
    rw [utf8Lossy.eq_def]; simp [h0, h2, h3, hv.1.1, hv.1.2, ih hv.2]
  | case6 b0 r0 h0 h2 h3 hne =>
    intro hv
    rw [utf8Valid.eq_def] at hv; simp [h0, h2, h3] at hv
  | case7 b0 h0 h2 h3 h4 b1 b2 b3 r3 ih =>
    intro hv
    rw [utf8Valid.eq_def] at hv; simp [h0, h2, h3, h4] at hv
    rw [utf8Lossy.eq_def]; simp [h0, h2, h3, h4, hv.1.1.1, hv.1.1.2, hv.1.2, ih hv.2]
  | case8 b0 r0 h0 h2 h3 h4 hne =>
    intro hv
    rw [utf8Valid.eq_def] at hv; simp [h0, h2, h3, h4] at hv
  | case9 b0 r0 h0 h2 h3 h4 =>
    intro hv
    rw [utf8Valid.eq_def] at hv; simp [h0, h2, h3, h4] at hv

/-! ### The result is always well-formed -/

theorem utf8Lossy_valid (b : Bytes) : utf8Valid (utf8Lossy b) = true := by
  induction b using utf8Lossy.induct <;> rw [utf8Lossy.eq_def] <;>
    simp [*, utf8Valid_repl_append, utf8Valid_repl, utf8Valid_cons_ascii, utf8Valid_cons2,
      utf8Valid_cons3, utf8Valid_cons4]

/-- The lossy conversion changes exactly the ill-formed inputs. -/
theorem utf8Valid_iff_lossy_eq (b : Bytes) : utf8Valid b = true ↔ utf8Lossy b = b :=
  ⟨utf8Lossy_of_valid b, fun h => by have := utf8Lossy_valid b; rwa [h] at this⟩

theorem utf8Lossy_idem (b : Bytes) : utf8Lossy (utf8Lossy b) = utf8Lossy b :=
  utf8Lossy_of_valid _ (utf8Lossy_valid b)

/-! ### A well-formed prefix is copied, and does not influence what follows -/

theorem utf8Valid_append (a b : Bytes) :
    utf8Valid a = true → utf8Valid (a ++ b) = utf8Valid b := by
  induction a using utf8Valid.induct with
  | case1 => intro _; rfl
  | case2 b0 r0 h ih =>
    intro hv
    rw [utf8Valid_cons_ascii _ _ h] at hv
    rw [List.cons_append, utf8Valid_cons_ascii _ _ h, ih hv]
  | case3 b0 h0 h2 b1 r1 ih =>
    intro hv
    rw [utf8Valid.eq_def] at hv; simp [h0, h2] at hv
    rw [List.cons_append, List.cons_append, utf8Valid_cons2 _ _ _ h0 h2 hv.1, ih hv.2]
  | case4 b0 h0 h2 =>
    intro hv
    rw [utf8Valid.eq_def] at hv; simp [h0, h2] at hv
  | case5 b0 h0 h2 h3 b1 b2 r2 ih =>
    intro hv
    rw [utf8Valid.eq_def] at hv; simp [h0, h2, h3] at hv
    rw [List.cons_append, List.cons_append, List.cons_append,
      utf8Valid_cons3 _ _ _ _ h0 h2 h3 hv.1.1 hv.1.2, ih hv.2]
  | case6 b0 r0 h0 h2 h3 hne =>
    intro hv
    rw [utf8Valid.eq_def] at hv; simp [h0, h2, h3] at hv
  | case7 b0 h0 h2 h3 h4 b1 b2 b3 r3 ih =>
    intro hv
    rw [utf8Valid.eq_def] at hv; simp [h0, h2, h3, h4] at hv
    rw [List.cons_append, List.cons_append, List.cons_append, List.cons_append,
      utf8Valid_cons4 _ _ _ _ _ h0 h2 h3 h4 hv.1.1.1 hv.1.1.2 hv.1.2, ih hv.2]
  | case8 b0 r0 h0 h2 h3 h4 hne =>
    intro hv
    rw [utf8Valid.eq_def] at hv; simp [h0, h2, h3, h4] at hv
  | case9 b0 r0 h0 h2 h3 h4 =>
    intro hv
    rw [utf8Valid.eq_def] at hv; simp [h0, h2, h3, h4] at hv

theorem utf8Lossy_append_of_valid (a b : Bytes) :
    utf8Valid a = true → utf8Lossy (a ++ b) = a ++ utf8Lossy b := by
  induction a using utf8Valid.induct with
  | case1 => intro _; rfl
  | case2 b0 r0 h ih =>
    intro hv
    rw [utf8Valid_cons_ascii _ _ h] at hv
    rw [List.cons_append, utf8Lossy_cons_ascii _ _ h, ih hv, List.cons_append]
  | case3 b0 h0 h2 b1 r1 ih =>
    intro hv
    rw [utf8Valid.eq_def] at hv; simp [h0, h2] at hv
    rw [List.cons_append, List.cons_append, utf8Lossy.eq_def]; simp [h0, h2, hv.1, ih hv.2]
  | case4 b0 h0 h2 =>
    intro hv
    rw [utf8Valid.eq_def] at hv; simp [h0, h2] at hv
  | case5 b0 h0 h2 h3 b1 b2 r2 ih =>
    intro hv
    rw [utf8Valid.eq_def] at hv; simp [h0, h2, h3] at hv
    rw [List.cons_append, List.cons_append, List.cons_append, utf8Lossy.eq_def]
    simp [h0, h2, h3, hv.1.1, hv.1.2, ih hv.2]
  | case6 b0 r0 h0 h2 h3 hne =>
    intro hv
    rw [utf8Valid.eq_def] at hv; simp [h0, h2, h3] at hv
  | case7 b0 h0 h2 h3 h4 b1 b2 b3 r3 ih =>
    intro hv
    rw [utf8Valid.eq_def] at hv; simp [h0, h2, h3, h4] at hv
    rw [List.cons_append, List.cons_append, List.cons_append, List.cons_append, utf8Lossy.eq_def]
    simp [h0, h2, h3, h4, hv.1.1.1, hv.1.1.2, hv.1.2, ih hv.2]
  | case8 b0 r0 h0 h2 h3 h4 hne =>
    intro hv
    rw [utf8Valid.eq_def] at hv; simp [h0, h2, h3, h4] at hv
  | case9 b0 r0 h0 h2 h3 h4 =>
    intro hv
    rw [utf8Valid.eq_def] at hv; simp [h0, h2, h3, h4] at hv

/-! ### Size -/

/-- Every input byte yields at most three output bytes (a lone invalid byte becomes `EF BF BD`). -/
theorem utf8Lossy_length_le (b : Bytes) : (utf8Lossy b).length ≤ 3 * b.length := by
  induction b using utf8Lossy.induct <;> rw [utf8Lossy.eq_def] <;>
    simp [*, utf8Repl] <;> (try simp only [List.length_cons] at *) <;> omega

/-- ... and the conversion never shrinks: an invalid part has at most three bytes. -/
theorem utf8Lossy_length_ge (b : Bytes) : b.length ≤ (utf8Lossy b).length := by
  induction b using utf8Lossy.induct <;> rw [utf8Lossy.eq_def] <;>
    simp [*, utf8Repl] <;> (try simp only [List.length_cons] at *) <;> omega

theorem utf8Lossy_eq_nil_iff (b : Bytes) : utf8Lossy b = [] ↔ b = [] := by
  constructor
  · intro h
    have := utf8Lossy_length_ge b
    rw [h] at this
    exact List.eq_nil_of_length_eq_zero (by simpa using this)
  · intro h; subst h; rfl

/-! ### Concrete instances
  (the example of the Rust documentation and those of the Unicode standard, section 3.9,
  "U+FFFD Substitution of Maximal Subparts") -/

/-- `String::from_utf8_lossy(b"Hello \xF0\x90\x80World") == "Hello \u{FFFD}World"` -/
example : utf8Lossy ([0x48, 0x65, 0x6C, 0x6C, 0x6F, 0x20, 0xF0, 0x90, 0x80, 0x57, 0x6F, 0x72, 0x6C, 0x64])
    = [0x48, 0x65, 0x6C, 0x6C, 0x6F, 0x20] ++ utf8Repl ++ [0x57, 0x6F, 0x72, 0x6C, 0x64] := by decide

/-- Unicode: `61 F1 80 80 E1 80 C2 62 80 63 80 BF 64` ↦ `61 FFFD FFFD FFFD 62 FFFD 63 FFFD FFFD 64` -/
example : utf8Lossy [0x61, 0xF1, 0x80, 0x80, 0xE1, 0x80, 0xC2, 0x62, 0x80, 0x63, 0x80, 0xBF, 0x64]
    = [0x61] ++ utf8Repl ++ utf8Repl ++ utf8Repl ++ [0x62] ++ utf8Repl ++ [0x63] ++ utf8Repl ++ utf8Repl
      ++ [0x64] := by decide

/-- Unicode: `C0 AF E0 80 BF F0 81 82 41` ↦ eight U+FFFD and `41` -/
example : utf8Lossy [0xC0, 0xAF, 0xE0, 0x80, 0xBF, 0xF0, 0x81, 0x82, 0x41]
    = utf8Repl ++ utf8Repl ++ utf8Repl ++ utf8Repl ++ utf8Repl ++ utf8Repl ++ utf8Repl ++ utf8Repl
      ++ [0x41] := by decide

/-- surrogates, the first value above U+10FFFF, and the extreme scalar values -/
example : utf8Valid [0xED, 0x9F, 0xBF, 0xEE, 0x80, 0x80, 0xF4, 0x8F, 0xBF, 0xBF, 0xF0, 0x90, 0x80, 0x80,
    0xC2, 0x80, 0xE0, 0xA0, 0x80, 0x00, 0x7F] = true := by decide
example : utf8Valid [0xED, 0xA0, 0x80] = false := by decide
example : utf8Valid [0xF4, 0x90, 0x80, 0x80] = false := by decide
example : utf8Valid [0xC1, 0xBF] = false := by decide
example : utf8Valid [0xE0, 0x9F, 0xBF] = false := by decide
example : utf8Valid [0xF0, 0x8F, 0xBF, 0xBF] = false := by decide

end EnrVerif
