/-
  The effect of every update on the key/value content, stated against the plain sorted-map model
  (C08), and the causes of every error an update can report.

  The central definitions are `opPre` (the value checks an update makes first), `opRaw` (what the
  update does to the content before the signer's public key is stored), `opRet` (what it returns)
  and `opChk` (whether the code checks the size before signing); `prepareG_nf` shows that
  `prepareG` is exactly "check, change the content, store the key, `finishPrepare`".

  Everything lives in `EnrVerif.Eff` so that the names cannot collide with other proof files.
-/
import EnrVerif.Model.Spec
import EnrVerif.Proofs.MapLemmas
import EnrVerif.Proofs.RlpLemmas
import EnrVerif.Proofs.DecodeLemmas
import EnrVerif.Proofs.SizeLemmas

namespace EnrVerif.Eff

/-! ### 1. `step`, `finishPrepare`, `preSign`: inversion -/

theorem step_ok_inv {S : Scheme} {r r' : Record} {op : Op S} {pk : S.PK} {o : Option Bytes}
    {ret : Ret} (h : step S r op pk o = (.ok ret, r')) :
    ∃ p sig, prepare S r op pk = .ok p ∧ o = some sig ∧
      r' = { p.enr with sig := sig, nodeId := nodeIdOf S pk } ∧ ret = p.ret ∧ r'.size ≤ 300 := by
  unfold step at h
  split at h
  · simp at h
  · rename_i p hp
    split at h
    · simp at h
    · rename_i sig
      simp only at h
      split at h
      · simp at h
      · rename_i hsz
        simp only [Prod.mk.injEq, Res.ok.injEq] at h
        obtain ⟨rfl, rfl⟩ := h
        exact ⟨p, sig, hp, rfl, rfl, rfl, by unfold MAX_ENR_SIZE at hsz; omega⟩

/-- A failing `step` leaves the record alone, and its error is the error of `prepare`, or the
    signer's failure, or the final size check. -/
theorem step_err_inv {S : Scheme} {r r2 : Record} {op : Op S} {pk : S.PK} {o : Option Bytes}
    {e : EnrErr} (h : step S r op pk o = (.err e, r2)) :
    r2 = r ∧
    (prepare S r op pk = .error e ∨
     (∃ p, prepare S r op pk = .ok p ∧ o = none ∧ e = .signingError) ∨
     (∃ p sig, prepare S r op pk = .ok p ∧ o = some sig ∧ e = .exceedsMaxSize ∧
        ({ p.enr with sig := sig, nodeId := nodeIdOf S pk } : Record).size > 300)) := by
  unfold step at h
  split at h
  · rename_i e' hp
    simp only [Prod.mk.injEq, Res.err.injEq] at h
    obtain ⟨rfl, rfl⟩ := h
    exact ⟨rfl, Or.inl hp⟩
  · rename_i p hp
    split at h
    · simp only [Prod.mk.injEq, Res.err.injEq] at h
      obtain ⟨rfl, rfl⟩ := h
      exact ⟨rfl, Or.inr (Or.inl ⟨p, hp, rfl, rfl⟩)⟩
    · rename_i sig
      simp only at h
      split at h
      · rename_i hsz
        simp only [Prod.mk.injEq, Res.err.injEq] at h
        obtain ⟨rfl, rfl⟩ := h
        exact ⟨rfl, Or.inr (Or.inr ⟨p, sig, hp, rfl, rfl, hsz⟩)⟩
      · simp at h

theorem step_ne_panic {S : Scheme} (r : Record) (op : Op S) (pk : S.PK) (o : Option Bytes)
    (s : PanicSite) : (step S r op pk o).1 ≠ .panic s := by
  unfold step
  split
  · simp
  · split
    · simp
    · simp only
      split <;> simp

theorem checkSigningKey_error {S : Scheme} {c : Content} {pk : S.PK} {e : EnrErr}
    (h : checkSigningKey S c pk = .error e) : e = .signingError := by
  unfold checkSigningKey at h
  split at h
  · split at h
    · cases h
    · simp only [Except.error.injEq] at h; exact h.symm
  · simp only [Except.error.injEq] at h; exact h.symm

theorem preSign_ok_inv {S : Scheme} {n : Record} {pk : S.PK} (h : preSign S n pk = .ok ()) :
    n.id = some vV4 ∧ checkSigningKey S n.content pk = .ok () := by
  unfold preSign at h
  split at h
  · rename_i i hi
    split at h
    · rename_i hv; subst hv; exact ⟨hi, h⟩
    · cases h
  · cases h

theorem preSign_error_cause {S : Scheme} {n : Record} {pk : S.PK} {e : EnrErr}
    (h : preSign S n pk = .error e) :
    (e = .unsupportedId ∧ n.id ≠ some vV4) ∨
    (e = .signingError ∧ n.id = some vV4 ∧ checkSigningKey S n.content pk = .error .signingError) := by
  unfold preSign at h
  split at h
  · rename_i i hi
    split at h
    · rename_i hv
      subst hv
      have := checkSigningKey_error h
      subst this
      exact Or.inr ⟨rfl, hi, h⟩
    · rename_i hv
      simp only [Except.error.injEq] at h
      refine Or.inl ⟨h.symm, ?_⟩
      rw [hi]; intro hc; simp only [Option.some.injEq] at hc; exact hv hc
  · rename_i hi
    simp only [Except.error.injEq] at h
    refine Or.inl ⟨h.symm, ?_⟩
    rw [hi]; simp

theorem finishPrepare_unfold (S : Scheme) (n : Record) (pk : S.PK) (chk : Bool) (ret : Ret) :
    finishPrepare S n pk chk ret =
      if chk = true ∧ n.size > 300 then .error .exceedsMaxSize
      else if n.seq + 1 < 2 ^ 64 then
        match preSign S { n with seq := n.seq + 1 } pk with
        | .error e => .error e
        | .ok () => .ok ⟨{ n with seq := n.seq + 1 }, ret⟩
      else .error .seqTooHigh := by
  unfold finishPrepare bumpSeq MAX_ENR_SIZE
  by_cases h1 : chk = true ∧ n.size > 300
  · rw [if_pos h1, if_pos (by simpa using h1)]
  · rw [if_neg h1, if_neg (by simpa using h1)]
    by_cases h2 : n.seq + 1 < 2 ^ 64
    · rw [if_pos h2, if_pos h2]; rfl
    · rw [if_neg h2, if_neg h2]

theorem finishPrepare_ok_inv {S : Scheme} {n : Record} {pk : S.PK} {chk : Bool} {ret : Ret}
    {p : Prepared} (h : finishPrepare S n pk chk ret = .ok p) :
    p.ret = ret ∧ p.enr = { n with seq := n.seq + 1 } ∧ n.seq + 1 < 2 ^ 64 ∧
      (chk = true → n.size ≤ 300) ∧ preSign S { n with seq := n.seq + 1 } pk = .ok () := by
  rw [finishPrepare_unfold] at h
  split at h
  · cases h
  · rename_i hc
    split at h
    · rename_i hs
      split at h
      · cases h
      · rename_i hp
        simp only [Except.ok.injEq] at h
        subst h
        refine ⟨rfl, rfl, hs, ?_, hp⟩
        intro hchk
        apply Classical.byContradiction
        intro hgt
        exact hc ⟨hchk, by omega⟩
    · cases h

/-- Why `finishPrepare` fails: the error kind matches the check that fired. -/
theorem finishPrepare_error_cause {S : Scheme} {n : Record} {pk : S.PK} {chk : Bool} {ret : Ret}
    {e : EnrErr} (h : finishPrepare S n pk chk ret = .error e) :
    (e = .exceedsMaxSize ∧ chk = true ∧ n.size > 300) ∨
    (e = .seqTooHigh ∧ 2 ^ 64 ≤ n.seq + 1) ∨
    (e = .unsupportedId ∧ n.id ≠ some vV4) ∨
    (e = .signingError ∧ n.id = some vV4 ∧
      checkSigningKey S n.content pk = .error .signingError) := by
  rw [finishPrepare_unfold] at h
  split at h
  · rename_i hc
    simp only [Except.error.injEq] at h
    exact Or.inl ⟨h.symm, hc.1, hc.2⟩
  · split at h
    · split at h
      · rename_i e' hp
        simp only [Except.error.injEq] at h
        subst h
        exact Or.inr (Or.inr (preSign_error_cause hp))
      · cases h
    · rename_i hs
      simp only [Except.error.injEq] at h
      exact Or.inr (Or.inl ⟨h.symm, by omega⟩)

/-- `finishPrepare` without the first size check fails only if it also fails with it. -/
theorem finishPrepare_chk_false_of_ok {S : Scheme} {n : Record} {pk : S.PK} {chk : Bool} {ret : Ret}
    {p : Prepared} (h : finishPrepare S n pk chk ret = .ok p) :
    finishPrepare S n pk false ret = .ok p := by
  unfold finishPrepare at h ⊢
  split at h
  · cases h
  · simpa using h

/-- If the first size check is what fails, then without it the outcome is that of the later checks. -/
theorem finishPrepare_true_cases {S : Scheme} (n : Record) (pk : S.PK) (ret : Ret) :
    (n.size > 300 ∧ finishPrepare S n pk true ret = .error .exceedsMaxSize) ∨
    (n.size ≤ 300 ∧ finishPrepare S n pk true ret = finishPrepare S n pk false ret) := by
  unfold finishPrepare
  by_cases h : n.size > 300
  · left; refine ⟨h, ?_⟩; simp [MAX_ENR_SIZE, h]
  · right; refine ⟨by omega, ?_⟩; simp [MAX_ENR_SIZE, h]

/-! ### 2. the content stage of every update -/

def ipKey (ip : Bytes) : Bytes := if ip.length = 4 then kIp else kIp6
def udpKey (ip : Bytes) : Bytes := if ip.length = 4 then kUdp else kUdp6
def tcpKey (ip : Bytes) : Bytes := if ip.length = 4 then kTcp else kTcp6

def clientList (name version : Bytes) (build : Option Bytes) : List Bytes :=
  match build with
  | none => [name, version]
  | some b => [name, version, b]

/-- the map part of `insertAll` -/
def insertAllMap : Content → List (Bytes × Bytes) → Content
  | c, [] => c
  | c, (k, v) :: rest => insertAllMap (Map.insert c k (encBytes v)) rest

/-- the returned previous values of `insertAll` -/
def insertAllPrev : Content → List (Bytes × Bytes) → List (Option Bytes)
  | _, [] => []
  | c, (k, v) :: rest => Map.lookup c k :: insertAllPrev (Map.insert c k (encBytes v)) rest

theorem insertAll_ok {c c' : Content} {ins : List (Bytes × Bytes)} {out : List (Option Bytes)}
    (h : insertAll c ins = .ok (c', out)) : c' = insertAllMap c ins ∧ out = insertAllPrev c ins := by
  induction ins generalizing c c' out with
  | nil =>
    simp only [insertAll, Except.ok.injEq, Prod.mk.injEq] at h
    exact ⟨h.1.symm, h.2.symm⟩
  | cons p rest ih =>
    obtain ⟨k, v⟩ := p
    simp only [insertAll] at h
    split at h
    · cases h
    · split at h
      · cases h
      · split at h
        · cases h
        · rename_i c2 out2 hrec
          simp only [Except.ok.injEq, Prod.mk.injEq] at h
          obtain ⟨h1, h2⟩ := ih hrec
          exact ⟨by rw [← h.1, h1]; rfl, by rw [← h.2, h2]; rfl⟩

/-- content after the two loops of `remove_insert` -/
def riRaw (c : Content) (rm : List Bytes) (ins : List (Bytes × Bytes)) : Content :=
  insertAllMap (removeAll c rm).1 ins

/-- the checks an update makes on its arguments before it changes anything -/
def opPre (S : Scheme) (op : Op S) (c : Content) : Except EnrErr Unit :=
  match op with
  | .insert key v => checkReserved key v.enc
  | .insertRaw key raw => checkReserved key raw
  | .setIp ip => checkReserved (ipKey ip) (encBytes ip)
  | .setUdp4 p => checkReserved kUdp (encUint p)
  | .setUdp6 p => checkReserved kUdp6 (encUint p)
  | .setTcp4 p => checkReserved kTcp (encUint p)
  | .setTcp6 p => checkReserved kTcp6 (encUint p)
  | .setClientInfo n v b => checkReserved kClient (Val.strs (clientList n v b)).enc
  | .setPublicKey pk' => checkReserved (S.enrKey pk') (encBytes (S.encodePub pk'))
  | .removeInsert rm ins =>
    match insertAll (removeAll c rm).1 ins with
    | .error e => .error e
    | .ok _ => .ok ()
  | _ => .ok ()

/-- what the update does to the content, before the signer's public key is stored -/
def opRaw (S : Scheme) (op : Op S) (c : Content) : Content :=
  match op with
  | .setSeq _ => c
  | .insert key v => Map.insert c key v.enc
  | .insertRaw key raw => Map.insert c key raw
  | .setIp ip => Map.insert c (ipKey ip) (encBytes ip)
  | .setUdp4 p => Map.insert c kUdp (encUint p)
  | .setUdp6 p => Map.insert c kUdp6 (encUint p)
  | .setTcp4 p => Map.insert c kTcp (encUint p)
  | .setTcp6 p => Map.insert c kTcp6 (encUint p)
  | .removeUdp4 => Map.erase c kUdp
  | .removeUdp6 => Map.erase c kUdp6
  | .removeTcp => Map.erase c kTcp
  | .removeTcp6 => Map.erase c kTcp6
  | .setClientInfo n v b => Map.insert c kClient (Val.strs (clientList n v b)).enc
  | .setUdpSocket ip port => Map.insert (Map.insert c (ipKey ip) (encBytes ip)) (udpKey ip) (encUint port)
  | .setTcpSocket ip port => Map.insert (Map.insert c (ipKey ip) (encBytes ip)) (tcpKey ip) (encUint port)
  | .removeUdpSocket => Map.erase (Map.erase c kIp) kUdp
  | .removeUdp6Socket => Map.erase (Map.erase c kIp6) kUdp6
  | .removeTcpSocket => Map.erase (Map.erase c kIp) kTcp
  | .removeTcp6Socket => Map.erase (Map.erase c kIp6) kTcp6
  | .removeKey key => Map.erase c key
  | .removeInsert rm ins => riRaw c rm ins
  | .setPublicKey pk' => Map.insert c (S.enrKey pk') (encBytes (S.encodePub pk'))

/-- what the update returns on success -/
def opRet (S : Scheme) (op : Op S) (c : Content) : Ret :=
  match op with
  | .insert key _ => .prevRaw (Map.lookup c key)
  | .insertRaw key _ => .prevRaw (Map.lookup c key)
  | .setIp ip => if ip.length = 4 then prevIp 4 (Map.lookup c kIp) else prevIp 16 (Map.lookup c kIp6)
  | .setUdp4 _ => prevPort (Map.lookup c kUdp)
  | .setUdp6 _ => prevPort (Map.lookup c kUdp6)
  | .setTcp4 _ => prevPort (Map.lookup c kTcp)
  | .setTcp6 _ => prevPort (Map.lookup c kTcp6)
  | .removeInsert rm ins =>
    .prevLists (removeAll c rm).2 (insertAllPrev (removeAll c rm).1 ins)
  | _ => .unit

/-- does the code check the size before signing? (`insert_raw_rlp` and `set_socket` do) -/
def opChk {S : Scheme} : Op S → Bool
  | .insert _ _ | .insertRaw _ _ | .setIp _ | .setUdp4 _ | .setUdp6 _ | .setTcp4 _ | .setTcp6 _
  | .setClientInfo _ _ _ | .setUdpSocket _ _ | .setTcpSocket _ _ | .setPublicKey _ => true
  | _ => false

/-- the sequence number of the result -/
def newSeq {S : Scheme} (op : Op S) (r : Record) : Nat :=
  match op with
  | .setSeq s => s
  | _ => r.seq + 1

/-- the content of the result: the changed content with the signer's public key stored -/
def newContent (S : Scheme) (op : Op S) (pk : S.PK) (c : Content) : Content :=
  withPubkey S (opRaw S op c) pk

/-- the continuation after the argument checks -/
def afterPre (S : Scheme) (r : Record) (op : Op S) (pk : S.PK) (chk : Bool) :
    Except EnrErr Unit → Except EnrErr Prepared
  | .error e => .error e
  | .ok () => finishPrepare S { r with content := newContent S op pk r.content } pk
      (chk && opChk op) (opRet S op r.content)

theorem prepInsertRaw_nf (S : Scheme) (r : Record) (key raw : Bytes) (pk : S.PK) (chk : Bool)
    (mk : Option Bytes → Ret) :
    prepInsertRaw S r key raw pk chk mk =
      match checkReserved key raw with
      | .error e => .error e
      | .ok () => finishPrepare S { r with content := withPubkey S (Map.insert r.content key raw) pk }
          pk chk (mk (Map.lookup r.content key)) := by
  unfold prepInsertRaw
  rfl

theorem prepRemoveInsert_nf (S : Scheme) (r : Record) (rm : List Bytes) (ins : List (Bytes × Bytes))
    (pk : S.PK) (mk : List (Option Bytes) → List (Option Bytes) → Ret) :
    prepRemoveInsert S r rm ins pk mk =
      match insertAll (removeAll r.content rm).1 ins with
      | .error e => .error e
      | .ok _ => finishPrepare S { r with content := withPubkey S (riRaw r.content rm ins) pk } pk false
          (mk (removeAll r.content rm).2 (insertAllPrev (removeAll r.content rm).1 ins)) := by
  unfold prepRemoveInsert
  cases hra : removeAll r.content rm with
  | mk c1 removed =>
    simp only
    cases hia : insertAll c1 ins with
    | error e => rfl
    | ok x =>
      obtain ⟨c2, inserted⟩ := x
      obtain ⟨h1, h2⟩ := insertAll_ok hia
      simp only [riRaw, hra, h1, h2]

theorem riRaw_two_nil (c : Content) (a b : Bytes) :
    riRaw c [a, b] [] = Map.erase (Map.erase c a) b := rfl

/-- `prepareG` = argument checks, content change, store the key, `finishPrepare`. -/
theorem prepareG_nf (S : Scheme) (r : Record) (op : Op S) (pk : S.PK) (chk : Bool)
    (hop : op.isSetSeq = false) :
    prepareG S r op pk chk = afterPre S r op pk chk (opPre S op r.content) := by
  cases op with
  | setSeq s => simp [Op.isSetSeq] at hop
  | setIp ip =>
    simp only [prepareG, opPre, ipKey, prepInsertRaw_nf]
    split <;>
    · cases checkReserved _ (encBytes ip) with
      | error e => rfl
      | ok u => simp [afterPre, newContent, opRaw, opRet, opChk, ipKey, *]
  | setClientInfo n v b =>
    cases b <;>
    · simp only [prepareG, opPre, prepInsertRaw_nf, clientList]
      cases checkReserved _ _ with
      | error e => rfl
      | ok u => simp [afterPre, newContent, opRaw, opRet, opChk, clientList]
  | insert key v | insertRaw key raw | setUdp4 p | setUdp6 p | setTcp4 p | setTcp6 p
  | setPublicKey pk' =>
    simp only [prepareG, opPre, prepInsertRaw_nf]
    cases checkReserved _ _ with
    | error e => rfl
    | ok u => simp [afterPre, newContent, opRaw, opRet, opChk]
  | removeUdp4 | removeUdp6 | removeTcp | removeTcp6 | removeKey key =>
    simp [prepareG, prepRemoveKey, opPre, afterPre, newContent, opRaw, opRet, opChk]
  | setUdpSocket ip port | setTcpSocket ip port =>
    simp only [prepareG, prepSetSocket, opPre, afterPre, newContent, opRaw, opRet, opChk, ipKey,
      udpKey, tcpKey, Bool.and_true, Bool.false_eq_true, if_false, if_true]
    split <;> rfl
  | removeUdpSocket | removeUdp6Socket | removeTcpSocket | removeTcp6Socket =>
    simp only [prepareG, prepRemoveInsert_nf, insertAll, riRaw_two_nil, opPre, afterPre, newContent,
      opRaw, opRet, opChk, Bool.and_false]
  | removeInsert rm ins =>
    simp only [prepareG, prepRemoveInsert_nf, opPre]
    cases insertAll (removeAll r.content rm).1 ins with
    | error e => rfl
    | ok x => simp [afterPre, newContent, opRaw, opRet, opChk]

theorem prepareG_setSeq (S : Scheme) (r : Record) (s : Nat) (pk : S.PK) (chk : Bool) :
    prepareG S r (.setSeq s) pk chk =
      match preSign S { r with seq := s, content := withPubkey S r.content pk } pk with
      | .error e => .error e
      | .ok () => .ok ⟨{ r with seq := s, content := withPubkey S r.content pk }, .unit⟩ := rfl

/-- Everything a successful `prepareG` tells us. -/
theorem prepareG_ok_inv {S : Scheme} {r : Record} {op : Op S} {pk : S.PK} {chk : Bool}
    {p : Prepared} (h : prepareG S r op pk chk = .ok p) :
    opPre S op r.content = .ok () ∧
    p.enr = { r with seq := newSeq op r, content := newContent S op pk r.content } ∧
    p.ret = opRet S op r.content ∧
    (op.isSetSeq = false → r.seq + 1 < 2 ^ 64) ∧
    ((chk && opChk op) = true →
      ({ r with content := newContent S op pk r.content } : Record).size ≤ 300) ∧
    preSign S { r with seq := newSeq op r, content := newContent S op pk r.content } pk = .ok () := by
  by_cases hop : op.isSetSeq = true
  · cases op with
    | setSeq s =>
      rw [prepareG_setSeq] at h
      split at h
      · cases h
      · rename_i hp
        simp only [Except.ok.injEq] at h
        subst h
        exact ⟨rfl, rfl, rfl, by simp [Op.isSetSeq], by simp [opChk], hp⟩
    | _ => simp [Op.isSetSeq] at hop
  · have hop' : op.isSetSeq = false := by simpa using hop
    rw [prepareG_nf S r op pk chk hop'] at h
    cases hpre : opPre S op r.content with
    | error e => rw [hpre] at h; cases h
    | ok u =>
      cases u
      rw [hpre] at h
      simp only [afterPre] at h
      obtain ⟨h1, h2, h3, h4, h5⟩ := finishPrepare_ok_inv h
      have hs : newSeq op r = r.seq + 1 := by
        cases op <;> first | rfl | (simp [Op.isSetSeq] at hop')
      refine ⟨rfl, ?_, h1, fun _ => h3, h4, ?_⟩
      · rw [h2, hs]
      · rw [hs]; exact h5

/-- dropping the first size check never turns a success into a failure -/
theorem prepareG_false_of_ok {S : Scheme} {r : Record} {op : Op S} {pk : S.PK} {chk : Bool}
    {p : Prepared} (h : prepareG S r op pk chk = .ok p) : prepareG S r op pk false = .ok p := by
  by_cases hop : op.isSetSeq = true
  · cases op with
    | setSeq s => exact h
    | _ => simp [Op.isSetSeq] at hop
  · have hop' : op.isSetSeq = false := by simpa using hop
    rw [prepareG_nf S r op pk _ hop'] at h ⊢
    cases hpre : opPre S op r.content with
    | error e => rw [hpre] at h; cases h
    | ok u =>
      cases u
      rw [hpre] at h
      simp only [afterPre, Bool.false_and] at h ⊢
      exact finishPrepare_chk_false_of_ok h

/-- The code as it is versus the code without the pre-signing size check: either the first check
    fires (the staged record with the *old* sequence number and signature is too large), or the two
    agree. -/
theorem prepareG_true_cases (S : Scheme) (r : Record) (op : Op S) (pk : S.PK) :
    (opPre S op r.content = .ok () ∧ opChk op = true ∧ op.isSetSeq = false ∧
      ({ r with content := newContent S op pk r.content } : Record).size > 300 ∧
      prepareG S r op pk true = .error .exceedsMaxSize) ∨
    prepareG S r op pk true = prepareG S r op pk false := by
  by_cases hop : op.isSetSeq = true
  · cases op with
    | setSeq s => exact Or.inr rfl
    | _ => simp [Op.isSetSeq] at hop
  · have hop' : op.isSetSeq = false := by simpa using hop
    rw [prepareG_nf S r op pk _ hop', prepareG_nf S r op pk _ hop']
    cases hpre : opPre S op r.content with
    | error e => exact Or.inr rfl
    | ok u =>
      cases u
      simp only [afterPre, Bool.true_and, Bool.false_and]
      cases hc : opChk op with
      | false => exact Or.inr rfl
      | true =>
        rcases finishPrepare_true_cases
          ({ r with content := newContent S op pk r.content } : Record) pk
          (opRet S op r.content) with ⟨h1, h2⟩ | ⟨_, h2⟩
        · exact Or.inl ⟨by simp, by simp, hop', h1, h2⟩
        · exact Or.inr h2

/-! ### 3. the effect of a successful `step` -/

/-- The record after a successful update, field by field. -/
theorem step_effect {S : Scheme} {r r' : Record} {op : Op S} {pk : S.PK} {o : Option Bytes}
    {ret : Ret} (h : step S r op pk o = (.ok ret, r')) :
    r'.content = newContent S op pk r.content ∧ ret = opRet S op r.content ∧
    r'.seq = newSeq op r ∧ r'.nodeId = nodeIdOf S pk ∧ (∃ sig, o = some sig ∧ r'.sig = sig) ∧
    r'.size ≤ 300 := by
  obtain ⟨p, sig, hp, ho, hr, hret, hsz⟩ := step_ok_inv h
  obtain ⟨_, h2, h3, _⟩ := prepareG_ok_inv hp
  subst hr
  refine ⟨?_, by rw [hret, h3], ?_, rfl, ⟨sig, ho, rfl⟩, hsz⟩
  · show p.enr.content = _
    rw [h2]
  · show p.enr.seq = _
    rw [h2]

/-! ### 4. `removeAll` and `insertAll` against the map model -/

theorem removeAll_fst_cons (c : Content) (k : Bytes) (ks : List Bytes) :
    (removeAll c (k :: ks)).1 = (removeAll (Map.erase c k) ks).1 := rfl

theorem removeAll_snd_cons (c : Content) (k : Bytes) (ks : List Bytes) :
    (removeAll c (k :: ks)).2 = Map.lookup c k :: (removeAll (Map.erase c k) ks).2 := rfl

theorem removeAll_sorted (c : Content) (rm : List Bytes) (hs : Map.Sorted c) :
    Map.Sorted (removeAll c rm).1 := by
  induction rm generalizing c with
  | nil => exact hs
  | cons k ks ih => rw [removeAll_fst_cons]; exact ih _ (Map.sorted_erase c k hs)

/-- After the removal loop a key is absent if it was named, and untouched otherwise. -/
theorem removeAll_lookup (c : Content) (rm : List Bytes) (k : Bytes) (hs : Map.Sorted c) :
    Map.lookup (removeAll c rm).1 k = if k ∈ rm then none else Map.lookup c k := by
  induction rm generalizing c with
  | nil => simp [removeAll]
  | cons k0 ks ih =>
    rw [removeAll_fst_cons, ih _ (Map.sorted_erase c k0 hs)]
    by_cases hk : k = k0
    · subst hk
      simp [Map.lookup_erase_self c k hs]
    · rw [Map.lookup_erase_ne c k0 k hk]
      simp [hk]

/-- Keys that are not named are untouched (no sortedness needed). -/
theorem removeAll_lookup_of_not_mem (c : Content) (rm : List Bytes) (k : Bytes) (hk : k ∉ rm) :
    Map.lookup (removeAll c rm).1 k = Map.lookup c k := by
  induction rm generalizing c with
  | nil => rfl
  | cons k0 ks ih =>
    simp only [List.mem_cons, not_or] at hk
    rw [removeAll_fst_cons, ih _ hk.2, Map.lookup_erase_ne c k0 k hk.1]

/-- What the removal loop returns, as a specification: for each named key, in order, its value in
    the original content, or `none` if the same call has removed it already. -/
def removedSpec (c : Content) : List Bytes → List Bytes → List (Option Bytes)
  | _, [] => []
  | seen, k :: ks => (if k ∈ seen then none else Map.lookup c k) :: removedSpec c (k :: seen) ks

theorem removeAll_returns_gen (c c' : Content) (seen rm : List Bytes) (hs : Map.Sorted c')
    (hinv : ∀ k, Map.lookup c' k = if k ∈ seen then none else Map.lookup c k) :
    (removeAll c' rm).2 = removedSpec c seen rm := by
  induction rm generalizing c' seen with
  | nil => rfl
  | cons k0 ks ih =>
    rw [removeAll_snd_cons, removedSpec, hinv k0]
    congr 1
    apply ih _ _ (Map.sorted_erase c' k0 hs)
    intro k
    by_cases hk : k = k0
    · subst hk
      simp [Map.lookup_erase_self c' k hs]
    · rw [Map.lookup_erase_ne c' k0 k hk, hinv k]
      simp [hk]

theorem removeAll_returns (c : Content) (rm : List Bytes) (hs : Map.Sorted c) :
    (removeAll c rm).2 = removedSpec c [] rm :=
  removeAll_returns_gen c c [] rm hs (by simp)

theorem removedSpec_nodup (c : Content) (seen rm : List Bytes)
    (h : ∀ k ∈ rm, k ∉ seen) (hn : rm.Nodup) :
    removedSpec c seen rm = rm.map (Map.lookup c) := by
  induction rm generalizing seen with
  | nil => rfl
  | cons k ks ih =>
    simp only [List.nodup_cons] at hn
    simp only [removedSpec, List.map_cons]
    rw [if_neg (h k (by simp))]
    congr 1
    apply ih _ _ hn.2
    intro x hx
    simp only [List.mem_cons, not_or]
    exact ⟨fun e => hn.1 (e ▸ hx), h x (by simp [hx])⟩

/-- With pairwise different keys the removal loop returns exactly the previous values. -/
theorem removeAll_returns_nodup (c : Content) (rm : List Bytes) (hs : Map.Sorted c)
    (hn : rm.Nodup) : (removeAll c rm).2 = rm.map (Map.lookup c) := by
  rw [removeAll_returns c rm hs]
  exact removedSpec_nodup c [] rm (by simp) hn

theorem removeAll_length (c : Content) (rm : List Bytes) : (removeAll c rm).2.length = rm.length := by
  induction rm generalizing c with
  | nil => rfl
  | cons k ks ih => rw [removeAll_snd_cons, List.length_cons, ih, List.length_cons]

/-- the value of the last pair for `k` in an insertion list -/
def lastVal (k : Bytes) : List (Bytes × Bytes) → Option Bytes
  | [] => none
  | (k', v) :: rest =>
    match lastVal k rest with
    | some w => some w
    | none => if k' = k then some v else none

theorem insertAllMap_sorted (c : Content) (ins : List (Bytes × Bytes)) (hs : Map.Sorted c) :
    Map.Sorted (insertAllMap c ins) := by
  induction ins generalizing c with
  | nil => exact hs
  | cons p rest ih =>
    obtain ⟨k, v⟩ := p
    exact ih _ (Map.sorted_insert c k _ hs)

/-- After the insertion loop a key holds the encoding of the last value given for it, and is
    untouched if none was given. -/
theorem insertAllMap_lookup (c : Content) (ins : List (Bytes × Bytes)) (k : Bytes) :
    Map.lookup (insertAllMap c ins) k =
      match lastVal k ins with
      | some v => some (encBytes v)
      | none => Map.lookup c k := by
  induction ins generalizing c with
  | nil => rfl
  | cons p rest ih =>
    obtain ⟨k', v⟩ := p
    simp only [insertAllMap, lastVal]
    rw [ih]
    cases hl : lastVal k rest with
    | some w => rfl
    | none =>
      simp only
      by_cases hk : k' = k
      · subst hk; rw [if_pos rfl, Map.lookup_insert_self]
      · rw [if_neg hk, Map.lookup_insert_ne _ _ _ _ (fun e => hk e.symm)]

theorem lastVal_none_of_not_mem (k : Bytes) (ins : List (Bytes × Bytes))
    (h : k ∉ ins.map Prod.fst) : lastVal k ins = none := by
  induction ins with
  | nil => rfl
  | cons p rest ih =>
    obtain ⟨k', v⟩ := p
    simp only [List.map_cons, List.mem_cons, not_or] at h
    simp only [lastVal, ih h.2]
    rw [if_neg (fun e => h.1 e.symm)]

theorem insertAllMap_lookup_of_not_mem (c : Content) (ins : List (Bytes × Bytes)) (k : Bytes)
    (h : k ∉ ins.map Prod.fst) : Map.lookup (insertAllMap c ins) k = Map.lookup c k := by
  rw [insertAllMap_lookup, lastVal_none_of_not_mem k ins h]

theorem insertAll_lookup {c c' : Content} {ins : List (Bytes × Bytes)} {out : List (Option Bytes)}
    (h : insertAll c ins = .ok (c', out)) (k : Bytes) :
    Map.lookup c' k =
      match lastVal k ins with
      | some v => some (encBytes v)
      | none => Map.lookup c k := by
  rw [(insertAll_ok h).1]; exact insertAllMap_lookup c ins k

theorem lastVal_append_single (x k v : Bytes) (done : List (Bytes × Bytes)) :
    lastVal x (done ++ [(k, v)]) = if k = x then some v else lastVal x done := by
  induction done with
  | nil => simp [lastVal]
  | cons p rest ih =>
    obtain ⟨k', v'⟩ := p
    simp only [List.cons_append, lastVal, ih]
    by_cases hk : k = x
    · simp [hk]
    · simp [hk]

/-- What the insertion loop returns, as a specification: for each pair, in order, the value the key
    had before it: the encoding of the last earlier value given for the same key in this call, or the
    value in the content the loop started with. -/
def insertedSpec (c : Content) : List (Bytes × Bytes) → List (Bytes × Bytes) → List (Option Bytes)
  | _, [] => []
  | done, (k, v) :: rest =>
    (match lastVal k done with
     | some w => some (encBytes w)
     | none => Map.lookup c k) :: insertedSpec c (done ++ [(k, v)]) rest

theorem insertAllPrev_gen (c c' : Content) (done ins : List (Bytes × Bytes))
    (hinv : ∀ k, Map.lookup c' k = match lastVal k done with
      | some w => some (encBytes w)
      | none => Map.lookup c k) :
    insertAllPrev c' ins = insertedSpec c done ins := by
  induction ins generalizing c' done with
  | nil => rfl
  | cons p rest ih =>
    obtain ⟨k, v⟩ := p
    simp only [insertAllPrev, insertedSpec]
    rw [hinv k]
    congr 1
    apply ih
    intro x
    rw [lastVal_append_single]
    by_cases hk : k = x
    · subst hk; rw [if_pos rfl, Map.lookup_insert_self]
    · rw [if_neg hk, Map.lookup_insert_ne _ _ _ _ (fun e => hk e.symm), hinv x]

theorem insertAll_returns {c c' : Content} {ins : List (Bytes × Bytes)} {out : List (Option Bytes)}
    (h : insertAll c ins = .ok (c', out)) : out = insertedSpec c [] ins := by
  rw [(insertAll_ok h).2]
  exact insertAllPrev_gen c c [] ins (fun k => rfl)

/-- Why the insertion loop fails: some pair is refused, with the error of its own check. -/
theorem insertAll_error_cause {c : Content} {ins : List (Bytes × Bytes)} {e : EnrErr}
    (h : insertAll c ins = .error e) :
    ∃ pre k v post, ins = pre ++ (k, v) :: post ∧
      ((k = kId ∧ v ≠ vV4 ∧ e = .unsupportedId) ∨ checkReserved k (encBytes v) = .error e) := by
  induction ins generalizing c with
  | nil => cases h
  | cons p rest ih =>
    obtain ⟨k, v⟩ := p
    simp only [insertAll] at h
    split at h
    · rename_i hk
      simp only [Except.error.injEq] at h
      exact ⟨[], k, v, rest, rfl, Or.inl ⟨hk.1, hk.2, h.symm⟩⟩
    · split at h
      · rename_i e' hc
        simp only [Except.error.injEq] at h
        subst h
        exact ⟨[], k, v, rest, rfl, Or.inr hc⟩
      · split at h
        · rename_i e' hrec
          simp only [Except.error.injEq] at h
          subst h
          obtain ⟨pre, k2, v2, post, h1, h2⟩ := ih hrec
          exact ⟨(k, v) :: pre, k2, v2, post, by rw [h1]; rfl, h2⟩
        · cases h

/-! ### 5. sortedness and untouched keys -/

theorem opRaw_sorted (S : Scheme) (op : Op S) (c : Content) (hs : Map.Sorted c) :
    Map.Sorted (opRaw S op c) := by
  cases op <;> simp only [opRaw, riRaw] <;>
    first
    | exact hs
    | exact insertAllMap_sorted _ _ (removeAll_sorted _ _ hs)
    | exact Map.sorted_insert _ _ _ (Map.sorted_insert _ _ _ hs)
    | exact Map.sorted_erase _ _ (Map.sorted_erase _ _ hs)
    | exact Map.sorted_insert _ _ _ hs
    | exact Map.sorted_erase _ _ hs

theorem newContent_sorted (S : Scheme) (op : Op S) (pk : S.PK) (c : Content) (hs : Map.Sorted c) :
    Map.Sorted (newContent S op pk c) :=
  Map.sorted_insert _ _ _ (opRaw_sorted S op c hs)

/-- the keys an update may change, apart from the signer's public-key entry -/
def opKeys (S : Scheme) : Op S → List Bytes
  | .setSeq _ => []
  | .insert key _ => [key]
  | .insertRaw key _ => [key]
  | .setIp ip => [ipKey ip]
  | .setUdp4 _ => [kUdp]
  | .setUdp6 _ => [kUdp6]
  | .setTcp4 _ => [kTcp]
  | .setTcp6 _ => [kTcp6]
  | .removeUdp4 => [kUdp]
  | .removeUdp6 => [kUdp6]
  | .removeTcp => [kTcp]
  | .removeTcp6 => [kTcp6]
  | .setClientInfo _ _ _ => [kClient]
  | .setUdpSocket ip _ => [ipKey ip, udpKey ip]
  | .setTcpSocket ip _ => [ipKey ip, tcpKey ip]
  | .removeUdpSocket => [kIp, kUdp]
  | .removeUdp6Socket => [kIp6, kUdp6]
  | .removeTcpSocket => [kIp, kTcp]
  | .removeTcp6Socket => [kIp6, kTcp6]
  | .removeKey key => [key]
  | .removeInsert rm ins => rm ++ ins.map Prod.fst
  | .setPublicKey pk' => [S.enrKey pk']

/-- the keys an update may change: its own keys and the signer's public-key entry -/
def touched (S : Scheme) (op : Op S) (pk : S.PK) : List Bytes := opKeys S op ++ [S.enrKey pk]

theorem opRaw_untouched (S : Scheme) (op : Op S) (c : Content) (k : Bytes)
    (hk : k ∉ opKeys S op) : Map.lookup (opRaw S op c) k = Map.lookup c k := by
  cases op with
  | setSeq s => rfl
  | removeInsert rm ins =>
    simp only [opKeys, List.mem_append, not_or] at hk
    simp only [opRaw, riRaw]
    rw [insertAllMap_lookup_of_not_mem _ _ _ hk.2, removeAll_lookup_of_not_mem _ _ _ hk.1]
  | setUdpSocket ip port | setTcpSocket ip port =>
    simp only [opKeys, List.mem_cons, List.not_mem_nil, or_false, not_or] at hk
    simp only [opRaw]
    rw [Map.lookup_insert_ne _ _ _ _ hk.2, Map.lookup_insert_ne _ _ _ _ hk.1]
  | removeUdpSocket | removeUdp6Socket | removeTcpSocket | removeTcp6Socket =>
    simp only [opKeys, List.mem_cons, List.not_mem_nil, or_false, not_or] at hk
    simp only [opRaw]
    rw [Map.lookup_erase_ne _ _ _ hk.2, Map.lookup_erase_ne _ _ _ hk.1]
  | removeUdp4 | removeUdp6 | removeTcp | removeTcp6 | removeKey key =>
    simp only [opKeys, List.mem_cons, List.not_mem_nil, or_false] at hk
    simp only [opRaw]
    rw [Map.lookup_erase_ne _ _ _ hk]
  | _ =>
    simp only [opKeys, List.mem_cons, List.not_mem_nil, or_false] at hk
    simp only [opRaw]
    rw [Map.lookup_insert_ne _ _ _ _ hk]

theorem newContent_untouched (S : Scheme) (op : Op S) (pk : S.PK) (c : Content) (k : Bytes)
    (hk : k ∉ touched S op pk) : Map.lookup (newContent S op pk c) k = Map.lookup c k := by
  simp only [touched, List.mem_append, List.mem_cons, List.not_mem_nil, or_false, not_or] at hk
  unfold newContent withPubkey
  rw [Map.lookup_insert_ne _ _ _ _ hk.2, opRaw_untouched S op c k hk.1]

/-- The signer's public key entry after any update. -/
theorem newContent_pubkey (S : Scheme) (op : Op S) (pk : S.PK) (c : Content) :
    Map.lookup (newContent S op pk c) (S.enrKey pk) = some (pubValue S pk) :=
  Map.lookup_insert_self _ _ _

/-! ### 6. the previous value returned by the typed setters -/

theorem prevPort_none : prevPort none = .prevPort none := rfl

theorem prevPort_canonical (p : Nat) (h : p < 65536) :
    prevPort (some (encUint p)) = .prevPort (some p) := by
  have := decodeUint_encUint 2 p [] (by omega) (by omega)
  rw [List.append_nil] at this
  simp only [prevPort, this]

theorem prevIp_none (n : Nat) : prevIp n none = .prevIp none := rfl

theorem prevIp_canonical (n : Nat) (ip : Bytes) (h : ip.length = n) (hn : n < 2 ^ 64) :
    prevIp n (some (encBytes ip)) = .prevIp (some ip) := by
  have := decodeFixed_encBytes n ip [] h hn
  rw [List.append_nil] at this
  simp only [prevIp, this]

/-! ### 7. error causes -/

/-- the staged record of `insert_raw_rlp` -/
def stagedInsert (S : Scheme) (r : Record) (key raw : Bytes) (pk : S.PK) : Record :=
  { r with content := withPubkey S (Map.insert r.content key raw) pk }

/-- the causes of the errors of the common tail of all updates, for the staged record `n` -/
def TailCause (S : Scheme) (n : Record) (pk : S.PK) (chk : Bool) (e : EnrErr) : Prop :=
  (e = .exceedsMaxSize ∧ chk = true ∧ n.size > 300) ∨
  (e = .seqTooHigh ∧ 2 ^ 64 ≤ n.seq + 1) ∨
  (e = .unsupportedId ∧ n.id ≠ some vV4) ∨
  (e = .signingError ∧ n.id = some vV4 ∧ checkSigningKey S n.content pk = .error .signingError)

theorem prepInsertRaw_error_cause {S : Scheme} {r : Record} {key raw : Bytes} {pk : S.PK}
    {chk : Bool} {mk : Option Bytes → Ret} {e : EnrErr}
    (h : prepInsertRaw S r key raw pk chk mk = .error e) :
    checkReserved key raw = .error e ∨
    (checkReserved key raw = .ok () ∧ TailCause S (stagedInsert S r key raw pk) pk chk e) := by
  rw [prepInsertRaw_nf] at h
  cases hc : checkReserved key raw with
  | error e' =>
    rw [hc] at h
    simp only [Except.error.injEq] at h
    subst h
    exact Or.inl rfl
  | ok u =>
    cases u
    rw [hc] at h
    exact Or.inr ⟨rfl, finishPrepare_error_cause h⟩

theorem prepRemoveKey_error_cause {S : Scheme} {r : Record} {key : Bytes} {pk : S.PK} {e : EnrErr}
    (h : prepRemoveKey S r key pk = .error e) :
    TailCause S { r with content := withPubkey S (Map.erase r.content key) pk } pk false e :=
  finishPrepare_error_cause h

/-- the staged record of `set_socket` -/
def stagedSocket (S : Scheme) (r : Record) (ip : Bytes) (port : Nat) (isTcp : Bool) (pk : S.PK) :
    Record :=
  { r with content := withPubkey S (Map.insert (Map.insert r.content (ipKey ip) (encBytes ip))
      (if isTcp then tcpKey ip else udpKey ip) (encUint port)) pk }

theorem prepSetSocket_error_cause {S : Scheme} {r : Record} {ip : Bytes} {port : Nat} {isTcp : Bool}
    {pk : S.PK} {chk : Bool} {e : EnrErr} (h : prepSetSocket S r ip port isTcp pk chk = .error e) :
    TailCause S (stagedSocket S r ip port isTcp pk) pk chk e := by
  unfold prepSetSocket at h
  have := finishPrepare_error_cause h
  unfold TailCause stagedSocket ipKey tcpKey udpKey
  by_cases h4 : ip.length = 4
  · simp only [h4, if_true] at this ⊢
    cases isTcp <;> simpa using this
  · simp only [h4, if_false] at this ⊢
    cases isTcp <;> simpa using this

theorem prepRemoveInsert_error_cause {S : Scheme} {r : Record} {rm : List Bytes}
    {ins : List (Bytes × Bytes)} {pk : S.PK} {mk : List (Option Bytes) → List (Option Bytes) → Ret}
    {e : EnrErr} (h : prepRemoveInsert S r rm ins pk mk = .error e) :
    insertAll (removeAll r.content rm).1 ins = .error e ∨
    ((∃ x, insertAll (removeAll r.content rm).1 ins = .ok x) ∧
      TailCause S { r with content := withPubkey S (riRaw r.content rm ins) pk } pk false e) := by
  rw [prepRemoveInsert_nf] at h
  cases hc : insertAll (removeAll r.content rm).1 ins with
  | error e' =>
    rw [hc] at h
    simp only [Except.error.injEq] at h
    subst h
    exact Or.inl rfl
  | ok x =>
    rw [hc] at h
    exact Or.inr ⟨⟨x, rfl⟩, finishPrepare_error_cause h⟩

/-- Every error of every update other than `set_seq` has a matching cause: the argument check of
    that update, or one of the four checks of the common tail on the staged record. -/
theorem prepareG_error_cause {S : Scheme} {r : Record} {op : Op S} {pk : S.PK} {chk : Bool}
    {e : EnrErr} (hop : op.isSetSeq = false) (h : prepareG S r op pk chk = .error e) :
    opPre S op r.content = .error e ∨
    (opPre S op r.content = .ok () ∧
      TailCause S { r with content := newContent S op pk r.content } pk (chk && opChk op) e) := by
  rw [prepareG_nf S r op pk chk hop] at h
  cases hc : opPre S op r.content with
  | error e' =>
    rw [hc] at h
    simp only [afterPre, Except.error.injEq] at h
    subst h
    exact Or.inl rfl
  | ok u =>
    cases u
    rw [hc] at h
    exact Or.inr ⟨rfl, finishPrepare_error_cause h⟩

theorem prepareG_setSeq_error_cause {S : Scheme} {r : Record} {s : Nat} {pk : S.PK} {chk : Bool}
    {e : EnrErr} (h : prepareG S r (.setSeq s) pk chk = .error e) :
    (e = .unsupportedId ∧ ({ r with content := withPubkey S r.content pk } : Record).id ≠ some vV4) ∨
    (e = .signingError ∧ ({ r with content := withPubkey S r.content pk } : Record).id = some vV4 ∧
      checkSigningKey S (withPubkey S r.content pk) pk = .error .signingError) := by
  rw [prepareG_setSeq] at h
  split at h
  · rename_i e' hp
    simp only [Except.error.injEq] at h
    subst h
    exact preSign_error_cause hp
  · cases h

/-! ### 8. when an update succeeds -/

theorem preSign_ok_of {S : Scheme} {n : Record} {pk : S.PK} (hid : n.id = some vV4)
    (hk : checkSigningKey S n.content pk = .ok ()) : preSign S n pk = .ok () := by
  unfold preSign
  rw [hid]
  simp only [if_true]
  exact hk

theorem step_of_prepare_error {S : Scheme} {r : Record} {op : Op S} {pk : S.PK} {e : EnrErr}
    (o : Option Bytes) (h : prepare S r op pk = .error e) : step S r op pk o = (.err e, r) := by
  unfold step; rw [h]

theorem step_of_prepare_ok {S : Scheme} {r : Record} {op : Op S} {pk : S.PK} {p : Prepared}
    (sig : Bytes) (h : prepare S r op pk = .ok p) :
    step S r op pk (some sig) =
      if ({ p.enr with sig := sig, nodeId := nodeIdOf S pk } : Record).size > 300
      then (.err .exceedsMaxSize, r)
      else (.ok p.ret, { p.enr with sig := sig, nodeId := nodeIdOf S pk }) := by
  unfold step; rw [h]; rfl

/-- the record an update produces when it succeeds -/
def resultOf (S : Scheme) (r : Record) (op : Op S) (pk : S.PK) (sig : Bytes) : Record :=
  ⟨newSeq op r, nodeIdOf S pk, newContent S op pk r.content, sig⟩

/-- A sufficient (and, by `step_effect`/`prepareG_ok_inv`, necessary) condition for an update
    other than `set_seq` to succeed. -/
theorem step_ok_of {S : Scheme} {r : Record} {op : Op S} {pk : S.PK} {sig : Bytes}
    (hop : op.isSetSeq = false) (hpre : opPre S op r.content = .ok ())
    (hfirst : opChk op = true →
      ({ r with content := newContent S op pk r.content } : Record).size ≤ 300)
    (hseq : r.seq + 1 < 2 ^ 64)
    (hid : ({ r with content := newContent S op pk r.content } : Record).id = some vV4)
    (hkey : checkSigningKey S (newContent S op pk r.content) pk = .ok ())
    (hfinal : (resultOf S r op pk sig).size ≤ 300) :
    step S r op pk (some sig) = (.ok (opRet S op r.content), resultOf S r op pk sig) := by
  have hs : newSeq op r = r.seq + 1 := by
    cases op <;> first | rfl | (simp [Op.isSetSeq] at hop)
  have hp : prepare S r op pk =
      .ok ⟨{ r with seq := r.seq + 1, content := newContent S op pk r.content },
        opRet S op r.content⟩ := by
    unfold prepare
    rw [prepareG_nf S r op pk true hop, hpre]
    simp only [afterPre, finishPrepare_unfold]
    rw [if_neg, if_pos hseq, preSign_ok_of
      (n := { r with seq := r.seq + 1, content := newContent S op pk r.content }) hid hkey]
    rintro ⟨h1, h2⟩
    simp only [Bool.true_and] at h1
    have := hfirst h1
    omega
  rw [step_of_prepare_ok sig hp]
  unfold resultOf at *
  rw [hs] at hfinal ⊢
  rw [if_neg (by simp only; omega)]

/-! ### 9. refusal for size -/

theorem checkReserved_error_kind {k v : Bytes} {e : EnrErr} (h : checkReserved k v = .error e) :
    e = .unsupportedId ∨ ∃ x, e = .invalidRlp x := by
  unfold checkReserved at h
  simp only at h
  repeat' split at h
  all_goals
    cases h <;> first | exact Or.inl rfl | exact Or.inr ⟨_, rfl⟩

theorem insertAll_error_kind {c : Content} {ins : List (Bytes × Bytes)} {e : EnrErr}
    (h : insertAll c ins = .error e) : e = .unsupportedId ∨ ∃ x, e = .invalidRlp x := by
  obtain ⟨_, k, v, _, _, h2⟩ := insertAll_error_cause h
  rcases h2 with ⟨_, _, h3⟩ | h3
  · exact Or.inl h3
  · exact checkReserved_error_kind h3

/-- The argument checks only ever report a value error. -/
theorem opPre_error_kind {S : Scheme} {op : Op S} {c : Content} {e : EnrErr}
    (h : opPre S op c = .error e) : e = .unsupportedId ∨ ∃ x, e = .invalidRlp x := by
  cases op with
  | removeInsert rm ins =>
    simp only [opPre] at h
    split at h
    · rename_i e' hi
      simp only [Except.error.injEq] at h
      subst h
      exact insertAll_error_kind hi
    · cases h
  | insert | insertRaw | setIp | setUdp4 | setUdp6 | setTcp4 | setTcp6 | setClientInfo
  | setPublicKey => simp only [opPre] at h; exact checkReserved_error_kind h
  | _ => cases h

/-- Without the pre-signing size check, `prepareG` never reports `exceedsMaxSize`. -/
theorem prepareG_false_ne_exceeds {S : Scheme} (r : Record) (op : Op S) (pk : S.PK) :
    prepareG S r op pk false ≠ .error .exceedsMaxSize := by
  intro h
  by_cases hop : op.isSetSeq = true
  · cases op with
    | setSeq s =>
      rcases prepareG_setSeq_error_cause h with ⟨h1, _⟩ | ⟨h1, _⟩ <;> cases h1
    | _ => simp [Op.isSetSeq] at hop
  · have hop' : op.isSetSeq = false := by simpa using hop
    rcases prepareG_error_cause hop' h with h1 | ⟨_, h1⟩
    · rcases opPre_error_kind h1 with h2 | ⟨x, h2⟩ <;> cases h2
    · rcases h1 with ⟨_, h2, _⟩ | ⟨h2, _⟩ | ⟨h2, _⟩ | ⟨h2, _⟩
      · simp at h2
      all_goals cases h2

/-- "Refused only when exceeded": if an update is refused for size, the record it would have
    produced (new pairs, new sequence number, the new signature) is larger than 300 bytes.  Needs
    the old and the new signature to have the same length (64 for the built-in key types). -/
theorem refusal_sound {S : Scheme} {r : Record} {op : Op S} {pk : S.PK} {sig : Bytes}
    (hl : r.sig.length = sig.length) (h1 : r.sig.length ≠ 1)
    (h : (step S r op pk (some sig)).1 = .err .exceedsMaxSize) :
    (resultOf S r op pk sig).size > 300 := by
  cases hp : prepare S r op pk with
  | error e =>
    rw [step_of_prepare_error _ hp] at h
    simp only [Res.err.injEq] at h
    subst h
    unfold prepare at hp
    rcases prepareG_true_cases S r op pk with ⟨_, _, hop, hbig, _⟩ | heq
    · have hs : newSeq op r = r.seq + 1 := by
        cases op <;> first | rfl | (simp [Op.isSetSeq] at hop)
      have := Sz.size_mono ({ r with content := newContent S op pk r.content } : Record)
        (resultOf S r op pk sig) hl h1 (by simp only [resultOf, hs]; omega) rfl
      omega
    · rw [heq] at hp
      exact absurd hp (prepareG_false_ne_exceeds r op pk)
  | ok p =>
    rw [step_of_prepare_ok sig hp] at h
    split at h
    · rename_i hbig
      obtain ⟨_, h2, _⟩ := prepareG_ok_inv hp
      have : (resultOf S r op pk sig).size =
          ({ p.enr with sig := sig, nodeId := nodeIdOf S pk } : Record).size := by
        apply Sz.size_congr <;> simp [resultOf, h2]
      omega
    · simp at h

/-- "Refused whenever exceeded": if, with the pre-signing size check removed, the update gets to the
    signer and the signed result is too large, the update is refused for size. -/
theorem refusal_complete {S : Scheme} {r : Record} {op : Op S} {pk : S.PK} {sig : Bytes}
    {p : Prepared} (hp : prepareG S r op pk false = .ok p)
    (hbig : ({ p.enr with sig := sig } : Record).size > 300) :
    (step S r op pk (some sig)).1 = .err .exceedsMaxSize := by
  rcases prepareG_true_cases S r op pk with ⟨_, _, _, _, herr⟩ | heq
  · rw [step_of_prepare_error _ herr]
  · have hp' : prepare S r op pk = .ok p := by unfold prepare; rw [heq, hp]
    rw [step_of_prepare_ok sig hp']
    have : ({ p.enr with sig := sig, nodeId := nodeIdOf S pk } : Record).size =
        ({ p.enr with sig := sig } : Record).size := Sz.size_congr _ _ rfl rfl rfl
    rw [if_pos (by omega)]

/-- The exact characterisation, for an update that is acceptable apart from its size. -/
theorem refusal_exact_of_prepared {S : Scheme} {r : Record} {op : Op S} {pk : S.PK} {sig : Bytes}
    {p : Prepared} (hl : r.sig.length = sig.length) (h1 : r.sig.length ≠ 1)
    (hp : prepareG S r op pk false = .ok p) :
    (step S r op pk (some sig)).1 = .err .exceedsMaxSize ↔
      ({ p.enr with sig := sig } : Record).size > 300 := by
  constructor
  · intro h
    have := refusal_sound hl h1 h
    obtain ⟨_, h2, _⟩ := prepareG_ok_inv hp
    have e : (resultOf S r op pk sig).size = ({ p.enr with sig := sig } : Record).size := by
      apply Sz.size_congr <;> simp [resultOf, h2]
    omega
  · exact refusal_complete hp

/-- Why the hypothesis "acceptable apart from its size" cannot be dropped: the pre-signing size
    check comes first, so at the maximal sequence number a too-large insertion is reported as
    `exceedsMaxSize` although without that check the call would fail with `seqTooHigh` (there is no
    result whose size could be measured). -/
theorem refusal_precedence_seq_max {S : Scheme} {r : Record} {op : Op S} {pk : S.PK}
    (o : Option Bytes) (hop : op.isSetSeq = false) (hpre : opPre S op r.content = .ok ())
    (hchk : opChk op = true)
    (hbig : ({ r with content := newContent S op pk r.content } : Record).size > 300)
    (hseq : 2 ^ 64 ≤ r.seq + 1) :
    (step S r op pk o).1 = .err .exceedsMaxSize ∧
    prepareG S r op pk false = .error .seqTooHigh := by
  constructor
  · have : prepare S r op pk = .error .exceedsMaxSize := by
      unfold prepare
      rw [prepareG_nf S r op pk true hop, hpre]
      simp only [afterPre, hchk, Bool.and_self]
      rw [finishPrepare_unfold, if_pos ⟨rfl, hbig⟩]
    rw [step_of_prepare_error _ this]
  · rw [prepareG_nf S r op pk false hop, hpre]
    simp only [afterPre, Bool.false_and]
    rw [finishPrepare_unfold, if_neg (by rintro ⟨h, _⟩; cases h), if_neg (by simp only; omega)]

/-! ### 10. `set_public_key` with the signer's own key -/

theorem valueOK_pubkey {S : Scheme} (hL : S.Lawful) (pk : S.PK) (hk : KeyOK S pk) :
    ValueOK (S.enrKey pk) (pubValue S pk) := by
  obtain ⟨h1, h2, h3, h4⟩ := hL.key_not_reserved pk
  unfold ValueOK pubValue
  rw [if_neg h1, if_neg (by simp [h2]), if_neg h3, if_neg h4]
  split
  · exact ⟨_, hk.1, rfl⟩
  · exact Or.inl ⟨_, hk.1, rfl⟩

theorem checkReserved_pubkey {S : Scheme} (hL : S.Lawful) (pk : S.PK) (hk : KeyOK S pk) :
    checkReserved (S.enrKey pk) (encBytes (S.encodePub pk)) = .ok () :=
  valueOK_checkReserved _ _ (valueOK_pubkey hL pk hk)

theorem newContent_setPublicKey_own (S : Scheme) (pk : S.PK) (c : Content) :
    newContent S (.setPublicKey pk) pk c = withPubkey S c pk := by
  simp only [newContent, opRaw, withPubkey, pubValue, Map.insert_insert_same]

/-- storing a key that is already stored in canonical form changes nothing -/
theorem withPubkey_idem {S : Scheme} {c : Content} {pk : S.PK} (hs : Map.Sorted c)
    (hst : Map.lookup c (S.enrKey pk) = some (pubValue S pk)) : withPubkey S c pk = c :=
  Map.insert_idem c _ _ hst hs

theorem id_withPubkey {S : Scheme} (hL : S.Lawful) (r : Record) (pk : S.PK)
    (hid : Map.lookup r.content kId = some (encBytes vV4)) :
    ({ r with content := withPubkey S r.content pk } : Record).id = some vV4 := by
  apply getBytes_kId_of_lookup
  simp only [withPubkey]
  rw [Map.lookup_insert_ne _ _ _ _ (fun e => (hL.key_not_reserved pk).1 e.symm)]
  exact hid

/-- `checkSigningKey` accepts the record's own key when it is stored in canonical form. -/
theorem checkSigningKey_own {S : Scheme} {c : Content} {pk : S.PK} (hs : Map.Sorted c)
    (hpk : S.enrToPublic c = .ok pk)
    (hst : Map.lookup c (S.enrKey pk) = some (pubValue S pk)) :
    checkSigningKey S (withPubkey S c pk) pk = .ok () := by
  rw [withPubkey_idem hs hst]
  unfold checkSigningKey
  rw [hpk]
  simp

/-- Setting the public key to the signer's own key can only fail for size or for the sequence
    number: never with a value error, an identity-scheme error or a signing error.
    `hread` says that the signer's key is the key read back once it is stored (true for every
    built-in key type when the record's key is the signer's key). -/
theorem setPublicKey_own_error {S : Scheme} (hL : S.Lawful) {r : Record} {pk : S.PK} {e : EnrErr}
    (hk : KeyOK S pk) (hid : Map.lookup r.content kId = some (encBytes vV4))
    (hread : checkSigningKey S (withPubkey S r.content pk) pk = .ok ())
    (h : prepare S r (.setPublicKey pk) pk = .error e) : e = .exceedsMaxSize ∨ e = .seqTooHigh := by
  unfold prepare at h
  rcases prepareG_error_cause (by rfl) h with h1 | ⟨_, h1⟩
  · simp only [opPre] at h1
    rw [checkReserved_pubkey hL pk hk] at h1
    cases h1
  · rw [newContent_setPublicKey_own] at h1
    rcases h1 with ⟨h2, _⟩ | ⟨h2, _⟩ | ⟨_, h2⟩ | ⟨_, _, h2⟩
    · exact Or.inl h2
    · exact Or.inr h2
    · exact absurd (id_withPubkey hL r pk hid) h2
    · simp only at h2
      rw [hread] at h2
      cases h2

/-- … and it succeeds whenever the sizes and the sequence number allow it. -/
theorem setPublicKey_own_ok {S : Scheme} (hL : S.Lawful) {r : Record} {pk : S.PK} {sig : Bytes}
    (hk : KeyOK S pk) (hid : Map.lookup r.content kId = some (encBytes vV4))
    (hread : checkSigningKey S (withPubkey S r.content pk) pk = .ok ())
    (hseq : r.seq + 1 < 2 ^ 64)
    (hfirst : ({ r with content := withPubkey S r.content pk } : Record).size ≤ 300)
    (hfinal : (⟨r.seq + 1, nodeIdOf S pk, withPubkey S r.content pk, sig⟩ : Record).size ≤ 300) :
    step S r (.setPublicKey pk) pk (some sig) =
      (.ok .unit, ⟨r.seq + 1, nodeIdOf S pk, withPubkey S r.content pk, sig⟩) := by
  have := step_ok_of (S := S) (r := r) (op := .setPublicKey pk) (pk := pk) (sig := sig) (by rfl)
    (by simp only [opPre]; exact checkReserved_pubkey hL pk hk)
    (by intro _; rw [newContent_setPublicKey_own]; exact hfirst) hseq
    (by rw [newContent_setPublicKey_own]; exact id_withPubkey hL r pk hid)
    (by rw [newContent_setPublicKey_own]; exact hread)
    (by simp only [resultOf, newContent_setPublicKey_own, newSeq]; exact hfinal)
  simpa only [resultOf, newContent_setPublicKey_own, newSeq, opRet] using this

/-! ### 11. the builder -/

/-- the content the builder signs: the added pairs, `id = v4`, the signer's public key -/
def builtContent (S : Scheme) (b : Builder) (pk : S.PK) : Content :=
  withPubkey S (Map.insert b.content kId (encBytes vV4)) pk

theorem builder_prepare_ok_inv {S : Scheme} {b b' : Builder} {pk : S.PK}
    (h : Builder.prepare S b pk = .ok b') :
    b'.seq = b.seq ∧ b'.content = builtContent S b pk ∧
    Builder.checkAll (builtContent S b pk) = .ok () ∧
    checkSigningKey S (builtContent S b pk) pk = .ok () := by
  unfold Builder.prepare at h
  simp only at h
  split at h
  · cases h
  · rename_i hc
    split at h
    · cases h
    · rename_i hk
      simp only [Except.ok.injEq] at h
      subst h
      exact ⟨rfl, rfl, hc, hk⟩

theorem builder_bound_eq (b : Builder) (sig : Bytes) :
    b.rlpContent.length + sig.length + 8 = Sz.builderBound b.seq b.content sig := rfl

theorem build_ok_inv {S : Scheme} {b : Builder} {pk : S.PK} {o : Option Bytes} {r : Record}
    (h : Builder.build S b pk o = .ok r) :
    ∃ b' sig, Builder.prepare S b pk = .ok b' ∧ o = some sig ∧
      Sz.builderBound b'.seq b'.content sig ≤ 300 ∧
      r = ⟨b'.seq, nodeIdOf S pk, b'.content, sig⟩ := by
  unfold Builder.build at h
  split at h
  · cases h
  · rename_i b' hp
    split at h
    · cases h
    · rename_i sig
      split at h
      · cases h
      · rename_i hsz
        simp only [Res.ok.injEq] at h
        rw [builder_bound_eq, MAX_ENR_SIZE] at hsz
        exact ⟨b', sig, hp, rfl, by omega, h.symm⟩

theorem build_of_prepare_ok {S : Scheme} {b b' : Builder} {pk : S.PK} (sig : Bytes)
    (h : Builder.prepare S b pk = .ok b') :
    Builder.build S b pk (some sig) =
      if Sz.builderBound b'.seq b'.content sig > 300 then .err .exceedsMaxSize
      else .ok ⟨b'.seq, nodeIdOf S pk, b'.content, sig⟩ := by
  unfold Builder.build
  rw [h]
  rfl

theorem checkAll_error_cause {c : Content} {e : EnrErr} (h : Builder.checkAll c = .error e) :
    ∃ k v, (k, v) ∈ c ∧ checkReserved k v = .error e := by
  induction c with
  | nil => cases h
  | cons p rest ih =>
    obtain ⟨k, v⟩ := p
    simp only [Builder.checkAll] at h
    split at h
    · rename_i e' hc
      simp only [Except.error.injEq] at h
      subst h
      exact ⟨k, v, List.mem_cons_self, hc⟩
    · obtain ⟨k2, v2, hm, hc⟩ := ih h
      exact ⟨k2, v2, List.mem_cons_of_mem _ hm, hc⟩

theorem checkAll_ok_inv {c : Content} (h : Builder.checkAll c = .ok ()) :
    ∀ k v, (k, v) ∈ c → checkReserved k v = .ok () := by
  induction c with
  | nil => intro k v hm; cases hm
  | cons p rest ih =>
    obtain ⟨k0, v0⟩ := p
    simp only [Builder.checkAll] at h
    split at h
    · cases h
    · rename_i hc
      intro k v hm
      rcases List.mem_cons.mp hm with e | hm'
      · cases e; exact hc
      · exact ih h k v hm'

/-- Why `build` fails: a pair is refused (with the error of its own check), the record would not be
    read back with the signer's key, the signer fails, or the builder's size bound is exceeded. -/
theorem build_error_cause {S : Scheme} {b : Builder} {pk : S.PK} {o : Option Bytes} {e : EnrErr}
    (h : Builder.build S b pk o = .err e) :
    (∃ k v, (k, v) ∈ builtContent S b pk ∧ checkReserved k v = .error e) ∨
    (e = .signingError ∧ Builder.checkAll (builtContent S b pk) = .ok () ∧
      checkSigningKey S (builtContent S b pk) pk = .error .signingError) ∨
    (e = .signingError ∧ o = none ∧ ∃ b', Builder.prepare S b pk = .ok b') ∨
    (e = .exceedsMaxSize ∧ ∃ b' sig, Builder.prepare S b pk = .ok b' ∧ o = some sig ∧
      Sz.builderBound b'.seq b'.content sig > 300) := by
  unfold Builder.build at h
  split at h
  · rename_i e' hp
    simp only [Res.err.injEq] at h
    subst h
    unfold Builder.prepare at hp
    simp only at hp
    split at hp
    · rename_i e'' hc
      simp only [Except.error.injEq] at hp
      subst hp
      exact Or.inl (checkAll_error_cause hc)
    · rename_i hc
      split at hp
      · rename_i e'' hk
        simp only [Except.error.injEq] at hp
        subst hp
        have := checkSigningKey_error hk
        subst this
        exact Or.inr (Or.inl ⟨rfl, hc, hk⟩)
      · cases hp
  · rename_i b' hp
    split at h
    · simp only [Res.err.injEq] at h
      exact Or.inr (Or.inr (Or.inl ⟨h.symm, rfl, b', hp⟩))
    · rename_i sig
      split at h
      · rename_i hsz
        simp only [Res.err.injEq] at h
        rw [builder_bound_eq, MAX_ENR_SIZE] at hsz
        exact Or.inr (Or.inr (Or.inr ⟨h.symm, b', sig, hp, rfl, hsz⟩))
      · cases h

end EnrVerif.Eff
