/-
  The typed accessors against the raw content (C14): each accessor reports a value exactly when the
  raw RLP stored under its key starts with the canonical encoding of such a value, and then that
  value; what the setters store reads back.

  Everything lives in `EnrVerif.Acc` so that the names cannot collide with other proof files.
-/
import EnrVerif.Proofs.MapEffects

namespace EnrVerif.Acc

open Eff

/-! ### the decoders as relations -/

theorem decodeBytes_false_iff (v bs rest : Bytes) :
    decodeBytes v false = .ok (bs, rest) ↔ v = encBytes bs ++ rest ∧ bs.length < 2 ^ 64 := by
  constructor
  · intro h
    exact ⟨decodeBytes_false_reencode v bs rest h, decodeBytes_payload_length_lt v false bs rest h⟩
  · rintro ⟨rfl, hl⟩
    exact decodeBytes_encBytes bs rest hl

theorem decodeBytes_true_iff (v p rest : Bytes) :
    decodeBytes v true = .ok (p, rest) ↔ v = encList p ++ rest ∧ p.length < 2 ^ 64 := by
  constructor
  · intro h
    exact ⟨decodeBytes_true_reencode v p rest h, decodeBytes_payload_length_lt v true p rest h⟩
  · rintro ⟨rfl, hl⟩
    exact decodeBytes_encList p rest hl

theorem decodeUint_iff (k : Nat) (hk : k ≤ 8) (v : Bytes) (n : Nat) (rest : Bytes) :
    decodeUint k v = .ok (n, rest) ↔ v = encUint n ++ rest ∧ n < 256 ^ k := by
  constructor
  · exact decodeUint_reencode k v n rest
  · rintro ⟨rfl, hl⟩
    exact decodeUint_encUint k n rest hk hl

theorem decodeFixed_iff (n : Nat) (hn : n < 2 ^ 64) (v bs rest : Bytes) :
    decodeFixed n v = .ok (bs, rest) ↔ v = encBytes bs ++ rest ∧ bs.length = n := by
  constructor
  · exact decodeFixed_reencode n v bs rest
  · rintro ⟨rfl, hl⟩
    exact decodeFixed_encBytes n bs rest hl hn

/-! ### canonical integers -/

theorem u16_roundtrip (p : Nat) (h : p < 65536) : decodeUint 2 (encUint p) = .ok (p, []) := by
  have := decodeUint_encUint 2 p [] (by omega) (by omega)
  rwa [List.append_nil] at this

/-- the integer bytes a setter stores have no leading zero -/
theorem encUint_canonical (p : Nat) :
    encUint p = encBytes (natToBe p) ∧ ∀ b0 rest, natToBe p = b0 :: rest → b0.toNat ≠ 0 :=
  ⟨rfl, natToBe_head_ne_zero p⟩

/-- `encUint` is injective against a value that fits 8 bytes. -/
theorem encUint_inj_of_lt {p q : Nat} (hq : q < 2 ^ 64) (h : encUint p = encUint q) : p = q := by
  have hlq := encUint_length_le q hq
  have hp : p < 2 ^ 64 := by
    have h1 : (natToBe p).length ≤ (encUint p).length := Sz.encBytes_length_ge _
    rw [h] at h1
    have h2 := beToNat_lt (natToBe p)
    rw [beToNat_natToBe] at h2
    have h3 : 256 ^ (natToBe p).length ≤ 256 ^ 9 := Nat.pow_le_pow_right (by omega) (by omega)
    apply Classical.byContradiction
    intro hge
    have h4 := natToBe_length_gt p 8 (by rw [← two64]; omega)
    have h5 : (encUint p).length ≤ 9 := by rw [h]; exact hlq
    -- 9 bytes of integer are framed in 10
    have h6 : (encUint p).length = (encodeHeader false (natToBe p).length).length +
        (natToBe p).length := by
      unfold encUint
      rw [Sz.encBytes_length_eq, if_neg (Sz.not_isSingle_of_length (by omega))]
    have := encodeHeader_length_pos false (natToBe p).length
    omega
  have e1 := decodeUint_encUint 8 p [] (by omega) (by rw [← two64]; exact hp)
  have e2 := decodeUint_encUint 8 q [] (by omega) (by rw [← two64]; exact hq)
  rw [h, e2] at e1
  simp only [Except.ok.injEq, Prod.mk.injEq, and_true] at e1
  exact e1.symm

/-- `encBytes` is injective against a short string. -/
theorem encBytes_inj_small {a b : Bytes} (hb : b.length < 2 ^ 63) (h : encBytes a = encBytes b) :
    a = b := by
  have h1 : a.length ≤ (encBytes a).length := Sz.encBytes_length_ge _
  rw [h] at h1
  have h2 := (encBytes_length b (by omega)).1
  have e1 := decodeBytes_encBytes a [] (by omega)
  have e2 := decodeBytes_encBytes b [] (by omega)
  rw [h, e2] at e1
  simp only [Except.ok.injEq, Prod.mk.injEq, and_true] at e1
  exact e1.symm

/-! ### `get_decodable::<Bytes>`, `id`, `ip4`, `ip6` -/

theorem getBytes_iff (r : Record) (k bs : Bytes) :
    r.getBytes k = some bs ↔
      ∃ rest, Map.lookup r.content k = some (encBytes bs ++ rest) ∧ bs.length < 2 ^ 64 := by
  unfold Record.getBytes Record.getRaw
  cases hl : Map.lookup r.content k with
  | none => simp
  | some v =>
    simp only [Option.some.injEq]
    cases hd : decodeBytes v false with
    | error e =>
      simp only [false_iff, reduceCtorEq]
      rintro ⟨rest, h1, h2⟩
      have := (decodeBytes_false_iff v bs rest).mpr ⟨h1, h2⟩
      rw [hd] at this
      cases this
    | ok x =>
      obtain ⟨b, rest0⟩ := x
      simp only [Option.some.injEq]
      obtain ⟨h1, h2⟩ := (decodeBytes_false_iff v b rest0).mp hd
      constructor
      · rintro rfl
        exact ⟨rest0, h1, h2⟩
      · rintro ⟨rest, h3, h4⟩
        have := (decodeBytes_false_iff v bs rest).mpr ⟨h3, h4⟩
        rw [hd] at this
        simp only [Except.ok.injEq, Prod.mk.injEq] at this
        exact this.1

theorem getBytes_of_lookup (r : Record) (k bs : Bytes) (hl : bs.length < 2 ^ 64)
    (h : Map.lookup r.content k = some (encBytes bs)) : r.getBytes k = some bs :=
  (getBytes_iff r k bs).mpr ⟨[], by rw [List.append_nil]; exact h, hl⟩

theorem id_iff (r : Record) (i : Bytes) :
    r.id = some i ↔
      ∃ rest, Map.lookup r.content kId = some (encBytes i ++ rest) ∧ i.length < 2 ^ 64 :=
  getBytes_iff r kId i

theorem fixed_iff (r : Record) (k : Bytes) (n : Nat) (hn : n < 2 ^ 64) (ip : Bytes) :
    (match r.getBytes k with
     | some bs => if bs.length = n then some bs else none
     | none => none) = some ip ↔
      ∃ rest, Map.lookup r.content k = some (encBytes ip ++ rest) ∧ ip.length = n := by
  cases hg : r.getBytes k with
  | none =>
    simp only [false_iff, reduceCtorEq]
    rintro ⟨rest, h1, h2⟩
    have := (getBytes_iff r k ip).mpr ⟨rest, h1, by omega⟩
    rw [hg] at this
    cases this
  | some bs =>
    obtain ⟨rest0, h1, h2⟩ := (getBytes_iff r k bs).mp hg
    simp only
    constructor
    · intro h
      split at h
      · rename_i hlen
        simp only [Option.some.injEq] at h
        subst h
        exact ⟨rest0, h1, hlen⟩
      · cases h
    · rintro ⟨rest, h3, h4⟩
      have := (getBytes_iff r k ip).mpr ⟨rest, h3, by omega⟩
      rw [hg] at this
      simp only [Option.some.injEq] at this
      subst this
      rw [if_pos h4]

theorem ip4_iff (r : Record) (ip : Bytes) :
    r.ip4 = some ip ↔
      ∃ rest, Map.lookup r.content kIp = some (encBytes ip ++ rest) ∧ ip.length = 4 :=
  fixed_iff r kIp 4 (by decide) ip

theorem ip6_iff (r : Record) (ip : Bytes) :
    r.ip6 = some ip ↔
      ∃ rest, Map.lookup r.content kIp6 = some (encBytes ip ++ rest) ∧ ip.length = 16 :=
  fixed_iff r kIp6 16 (by decide) ip

/-! ### `get_decodable::<u16>`: the ports -/

theorem getPort_iff (r : Record) (key : Bytes) (p : Nat) :
    r.getPort key = some p ↔
      ∃ rest, Map.lookup r.content key = some (encUint p ++ rest) ∧ p < 65536 := by
  unfold Record.getPort Record.getRaw
  cases hl : Map.lookup r.content key with
  | none => simp
  | some v =>
    simp only [Option.some.injEq]
    cases hd : decodeUint 2 v with
    | error e =>
      simp only [false_iff, reduceCtorEq]
      rintro ⟨rest, h1, h2⟩
      have := (decodeUint_iff 2 (by omega) v p rest).mpr ⟨h1, by omega⟩
      rw [hd] at this
      cases this
    | ok x =>
      obtain ⟨n, rest0⟩ := x
      simp only [Option.some.injEq]
      obtain ⟨h1, h2⟩ := (decodeUint_iff 2 (by omega) v n rest0).mp hd
      constructor
      · rintro rfl
        exact ⟨rest0, h1, by omega⟩
      · rintro ⟨rest, h3, h4⟩
        have := (decodeUint_iff 2 (by omega) v p rest).mpr ⟨h3, by omega⟩
        rw [hd] at this
        simp only [Except.ok.injEq, Prod.mk.injEq] at this
        exact this.1

theorem getPort_of_lookup (r : Record) (key : Bytes) (p : Nat) (hp : p < 65536)
    (h : Map.lookup r.content key = some (encUint p)) : r.getPort key = some p :=
  (getPort_iff r key p).mpr ⟨[], by rw [List.append_nil]; exact h, hp⟩

/-- In a well-formed content a port value is a single item: the accessor reports `p` exactly when
    the stored value IS the canonical encoding of `p`. -/
theorem getPort_iff_of_contentOK (r : Record) (key : Bytes) (p : Nat) (hc : ContentOK r.content)
    (hk : isPortKey key = true) :
    r.getPort key = some p ↔ Map.lookup r.content key = some (encUint p) := by
  constructor
  · intro h
    obtain ⟨rest, h1, h2⟩ := (getPort_iff r key p).mp h
    have hv := (hc.2 key _ (Map.lookup_mem _ _ _ h1)).2
    unfold ValueOK at hv
    rw [if_neg (isPortKey_ne_kId hk), if_pos hk] at hv
    obtain ⟨q, hq, hv⟩ := hv
    have e1 := decodeUint_encUint 2 p rest (by omega) (by omega)
    have e2 := u16_roundtrip q hq
    rw [hv, e2] at e1
    simp only [Except.ok.injEq, Prod.mk.injEq] at e1
    rw [h1, ← e1.2, List.append_nil]
  · intro h
    have hv := (hc.2 key _ (Map.lookup_mem _ _ _ h)).2
    unfold ValueOK at hv
    rw [if_neg (isPortKey_ne_kId hk), if_pos hk] at hv
    obtain ⟨q, hq, hv⟩ := hv
    have := encUint_inj_of_lt (by omega : q < 2 ^ 64) hv
    subst this
    exact getPort_of_lookup r key p hq h

/-- The same for the addresses. -/
theorem ip4_iff_of_contentOK (r : Record) (ip : Bytes) (hc : ContentOK r.content) :
    r.ip4 = some ip ↔ Map.lookup r.content kIp = some (encBytes ip) := by
  constructor
  · intro h
    obtain ⟨rest, h1, h2⟩ := (ip4_iff r ip).mp h
    have hv := (hc.2 kIp _ (Map.lookup_mem _ _ _ h1)).2
    unfold ValueOK at hv
    rw [if_neg (by decide), if_neg (by decide), if_pos rfl] at hv
    obtain ⟨bs, hb, hv⟩ := hv
    have e1 := decodeBytes_encBytes ip rest (by omega)
    have e2 := decodeBytes_encBytes bs [] (by omega)
    rw [List.append_nil] at e2
    rw [hv, e2] at e1
    simp only [Except.ok.injEq, Prod.mk.injEq] at e1
    rw [h1, ← e1.2, List.append_nil]
  · intro h
    have hv := (hc.2 kIp _ (Map.lookup_mem _ _ _ h)).2
    unfold ValueOK at hv
    rw [if_neg (by decide), if_neg (by decide), if_pos rfl] at hv
    obtain ⟨bs, hb, hv⟩ := hv
    have := encBytes_inj_small (by omega : bs.length < 2 ^ 63) hv
    subst this
    exact (ip4_iff r ip).mpr ⟨[], by rw [List.append_nil]; exact h, hb⟩

theorem ip6_iff_of_contentOK (r : Record) (ip : Bytes) (hc : ContentOK r.content) :
    r.ip6 = some ip ↔ Map.lookup r.content kIp6 = some (encBytes ip) := by
  constructor
  · intro h
    obtain ⟨rest, h1, h2⟩ := (ip6_iff r ip).mp h
    have hv := (hc.2 kIp6 _ (Map.lookup_mem _ _ _ h1)).2
    unfold ValueOK at hv
    rw [if_neg (by decide), if_neg (by decide), if_neg (by decide), if_pos rfl] at hv
    obtain ⟨bs, hb, hv⟩ := hv
    have e1 := decodeBytes_encBytes ip rest (by omega)
    have e2 := decodeBytes_encBytes bs [] (by omega)
    rw [List.append_nil] at e2
    rw [hv, e2] at e1
    simp only [Except.ok.injEq, Prod.mk.injEq] at e1
    rw [h1, ← e1.2, List.append_nil]
  · intro h
    have hv := (hc.2 kIp6 _ (Map.lookup_mem _ _ _ h)).2
    unfold ValueOK at hv
    rw [if_neg (by decide), if_neg (by decide), if_neg (by decide), if_pos rfl] at hv
    obtain ⟨bs, hb, hv⟩ := hv
    have := encBytes_inj_small (by omega : bs.length < 2 ^ 63) hv
    subst this
    exact (ip6_iff r ip).mpr ⟨[], by rw [List.append_nil]; exact h, hb⟩

/-! ### `client_info` -/

theorem encStrs_cons (s : Bytes) (l : List Bytes) : encStrs (s :: l) = encBytes s ++ encStrs l := rfl

theorem decodeBytesList_encStrs (l : List Bytes) (h : ∀ x ∈ l, x.length < 2 ^ 64) :
    Record.decodeBytesList (encStrs l) = .ok l := by
  induction l with
  | nil => rw [Record.decodeBytesList]; rfl
  | cons s rest ih =>
    have hs : s.length < 2 ^ 64 := h s (by simp)
    have hd := decodeBytes_encBytes s (encStrs rest) hs
    rw [Record.decodeBytesList, encStrs_cons]
    have hne : (encBytes s ++ encStrs rest).isEmpty = false := by
      cases hq : encBytes s with
      | nil => exact absurd hq (encBytes_ne_nil s)
      | cons a t => rfl
    rw [hne]
    simp only [Bool.false_eq_true, if_false]
    split
    · rename_i e he
      rw [hd] at he
      cases he
    · rename_i b r' hb
      rw [hd] at hb
      simp only [Except.ok.injEq, Prod.mk.injEq] at hb
      obtain ⟨rfl, rfl⟩ := hb
      rw [ih (fun x hx => h x (by simp [hx]))]

theorem decodeBytesList_ok_inv (payload : Bytes) (l : List Bytes)
    (h : Record.decodeBytesList payload = .ok l) :
    payload = encStrs l ∧ ∀ x ∈ l, x.length < 2 ^ 64 := by
  induction payload using Record.decodeBytesList.induct generalizing l with
  | case1 x hx =>
    rw [Record.decodeBytesList, if_pos hx] at h
    simp only [Except.ok.injEq] at h
    subst h
    refine ⟨?_, by simp⟩
    cases x with
    | nil => rfl
    | cons a t => simp at hx
  | case2 x hx e he =>
    rw [Record.decodeBytesList, if_neg hx] at h
    split at h
    · cases h
    · rename_i b r' hb
      rw [he] at hb
      cases hb
  | case3 x hx b rest hb e he _ =>
    rw [Record.decodeBytesList, if_neg hx] at h
    split at h
    · cases h
    · rename_i b' r' hb'
      rw [hb] at hb'
      simp only [Except.ok.injEq, Prod.mk.injEq] at hb'
      obtain ⟨rfl, rfl⟩ := hb'
      rw [he] at h
      cases h
  | case4 x hx b rest hb bs hbs ih =>
    rw [Record.decodeBytesList, if_neg hx] at h
    split at h
    · cases h
    · rename_i b' r' hb'
      rw [hb] at hb'
      simp only [Except.ok.injEq, Prod.mk.injEq] at hb'
      obtain ⟨rfl, rfl⟩ := hb'
      rw [hbs] at h
      simp only [Except.ok.injEq] at h
      subst h
      obtain ⟨h1, h2⟩ := ih bs hbs
      obtain ⟨h3, h4⟩ := (decodeBytes_false_iff x b rest).mp hb
      refine ⟨by rw [encStrs_cons, ← h1]; exact h3, ?_⟩
      intro y hy
      rcases List.mem_cons.mp hy with rfl | hy'
      · exact h4
      · exact h2 y hy'

theorem decodeBytesList_iff (payload : Bytes) (l : List Bytes) :
    Record.decodeBytesList payload = .ok l ↔
      payload = encStrs l ∧ ∀ x ∈ l, x.length < 2 ^ 64 :=
  ⟨decodeBytesList_ok_inv payload l, fun ⟨h1, h2⟩ => h1 ▸ decodeBytesList_encStrs l h2⟩

/-- what `client_info()` makes of the decoded list of strings: two or three, nothing else -/
def clientOf : List Bytes → Option (Bytes × Bytes × Option Bytes)
  | [a, b] => some (a, b, none)
  | [a, b, c] => some (a, b, some c)
  | _ => none

theorem clientInfo_eq (r : Record) :
    r.clientInfo =
      match Map.lookup r.content kClient with
      | none => none
      | some v =>
        match decodeBytes v true with
        | .error _ => none
        | .ok (payload, _) =>
          match Record.decodeBytesList payload with
          | .ok l => clientOf l
          | .error _ => none := by
  unfold Record.clientInfo Record.getRaw
  cases Map.lookup r.content kClient with
  | none => rfl
  | some v =>
    simp only
    cases decodeBytes v true with
    | error e => rfl
    | ok x =>
      obtain ⟨p, rest⟩ := x
      simp only
      cases Record.decodeBytesList p with
      | error e => rfl
      | ok l =>
        match l with
        | [] => rfl
        | [_] => rfl
        | [_, _] => rfl
        | [_, _, _] => rfl
        | _ :: _ :: _ :: _ :: _ => rfl

/-- `client_info()` reports a value exactly when the stored value starts with a list item whose
    payload is the concatenation of two or three canonical strings, and then these strings. -/
theorem clientInfo_iff (r : Record) (x : Bytes × Bytes × Option Bytes) :
    r.clientInfo = some x ↔
      ∃ l rest, Map.lookup r.content kClient = some (encList (encStrs l) ++ rest) ∧
        (encStrs l).length < 2 ^ 64 ∧ (∀ s ∈ l, s.length < 2 ^ 64) ∧ clientOf l = some x := by
  rw [clientInfo_eq]
  cases hl : Map.lookup r.content kClient with
  | none => simp
  | some v =>
    simp only [Option.some.injEq]
    cases hd : decodeBytes v true with
    | error e =>
      simp only [false_iff, reduceCtorEq]
      rintro ⟨l, rest, h1, h2, _, _⟩
      have := (decodeBytes_true_iff v (encStrs l) rest).mpr ⟨h1, h2⟩
      rw [hd] at this
      cases this
    | ok y =>
      obtain ⟨p, rest0⟩ := y
      obtain ⟨h1, h2⟩ := (decodeBytes_true_iff v p rest0).mp hd
      simp only
      cases hb : Record.decodeBytesList p with
      | error e =>
        simp only [false_iff, reduceCtorEq]
        rintro ⟨l, rest, h3, h4, h5, _⟩
        have := (decodeBytes_true_iff v (encStrs l) rest).mpr ⟨h3, h4⟩
        rw [hd] at this
        simp only [Except.ok.injEq, Prod.mk.injEq] at this
        have hb' := decodeBytesList_encStrs l h5
        rw [← this.1, hb] at hb'
        cases hb'
      | ok l0 =>
        obtain ⟨h3, h4⟩ := decodeBytesList_ok_inv p l0 hb
        simp only
        constructor
        · intro hx
          exact ⟨l0, rest0, by rw [← h3]; exact h1, by rw [← h3]; exact h2, h4, hx⟩
        · rintro ⟨l, rest, h5, h6, h7, h8⟩
          have := (decodeBytes_true_iff v (encStrs l) rest).mpr ⟨h5, h6⟩
          rw [hd] at this
          simp only [Except.ok.injEq, Prod.mk.injEq] at this
          have hb' := decodeBytesList_encStrs l h7
          rw [← this.1, hb] at hb'
          simp only [Except.ok.injEq] at hb'
          rw [hb']
          exact h8

theorem clientInfo_of_lookup (r : Record) (l : List Bytes)
    (h : Map.lookup r.content kClient = some (encList (encStrs l)))
    (hlen : (encStrs l).length < 2 ^ 64) (hs : ∀ s ∈ l, s.length < 2 ^ 64) :
    r.clientInfo = clientOf l := by
  cases hc : clientOf l with
  | some x =>
    exact (clientInfo_iff r x).mpr ⟨l, [], by rw [List.append_nil]; exact h, hlen, hs, hc⟩
  | none =>
    cases hq : r.clientInfo with
    | none => rfl
    | some x =>
      obtain ⟨l', rest, h1, h2, h3, h4⟩ := (clientInfo_iff r x).mp hq
      rw [h] at h1
      simp only [Option.some.injEq] at h1
      have e1 := decodeBytes_encList (encStrs l) [] hlen
      rw [List.append_nil, h1, decodeBytes_encList _ _ h2] at e1
      simp only [Except.ok.injEq, Prod.mk.injEq] at e1
      have e2 := decodeBytesList_encStrs l hs
      rw [← e1.1, decodeBytesList_encStrs l' h3] at e2
      simp only [Except.ok.injEq] at e2
      rw [e2, hc] at h4
      cases h4

/-! ### sockets and reachability -/

theorem socket_isSome (ip : Option Bytes) (port : Option Nat) :
    (Record.socket ip port).isSome = (ip.isSome && port.isSome) := by
  cases ip <;> cases port <;> rfl

theorem socket_eq_some (ip : Option Bytes) (port : Option Nat) (i : Bytes) (p : Nat) :
    Record.socket ip port = some (i, p) ↔ ip = some i ∧ port = some p := by
  cases ip <;> cases port <;> simp [Record.socket]

/-! ### reading back what an update stored -/

theorem lookup_newContent_of_ne (S : Scheme) (op : Op S) (pk : S.PK) (c : Content) (k : Bytes)
    (hk : k ≠ S.enrKey pk) :
    Map.lookup (newContent S op pk c) k = Map.lookup (opRaw S op c) k := by
  unfold newContent withPubkey
  exact Map.lookup_insert_ne _ _ _ _ hk

theorem portKey_ne_pub {S : Scheme} (hL : S.Lawful) (pk : S.PK) {k : Bytes}
    (hk : isPortKey k = true) : k ≠ S.enrKey pk := by
  intro e
  have := (hL.key_not_reserved pk).2.1
  rw [← e, hk] at this
  cases this

/-- The raw value after a successful `step`, for a key other than the signer's key entry. -/
theorem step_lookup {S : Scheme} {r r' : Record} {op : Op S} {pk : S.PK} {o : Option Bytes}
    {ret : Ret} (h : step S r op pk o = (.ok ret, r')) (k : Bytes) (hk : k ≠ S.enrKey pk) :
    Map.lookup r'.content k = Map.lookup (opRaw S op r.content) k := by
  rw [(step_effect h).1]
  exact lookup_newContent_of_ne S op pk r.content k hk

theorem build_lookup {S : Scheme} {b : Builder} {pk : S.PK} {o : Option Bytes} {r : Record}
    (h : Builder.build S b pk o = .ok r) (k : Bytes) (h1 : k ≠ kId) (h2 : k ≠ S.enrKey pk) :
    Map.lookup r.content k = Map.lookup b.content k := by
  obtain ⟨b', sig, hp, _, _, hr⟩ := build_ok_inv h
  obtain ⟨_, hc, _, _⟩ := builder_prepare_ok_inv hp
  subst hr
  simp only [hc, builtContent, withPubkey]
  rw [Map.lookup_insert_ne _ _ _ _ h2, Map.lookup_insert_ne _ _ _ _ h1]

end EnrVerif.Acc
