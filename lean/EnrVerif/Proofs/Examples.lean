/-
  Shared material for the non-vacuity examples of the property modules (`Props/`): the toy scheme
  `tinyS` and its concrete records `r0`, `r1`, `r2` (`Proofs/ToyScheme.lean`) in byte form, and some
  concrete byte strings the decoder rejects.

  `decode`'s loops (`decodePairs`, `decodeBytesList`, `decodeMany`) are defined by well-founded
  recursion, which `decide`/`rfl` of the elaborator do not unfold; the kernel does, so concrete
  decoder runs are checked with `decide +kernel` (plain kernel reduction: no compiler, no axiom).
  `Except` has no `DecidableEq` instance in core; the one below is what those `decide`s use.
-/
import EnrVerif.Proofs.ToyScheme

namespace EnrVerif

instance exceptDecEq {ε α : Type} [DecidableEq ε] [DecidableEq α] : DecidableEq (Except ε α)
  | .ok a, .ok b => if h : a = b then isTrue (by rw [h]) else isFalse (fun e => h (by injection e))
  | .error a, .error b =>
    if h : a = b then isTrue (by rw [h]) else isFalse (fun e => h (by injection e))
  | .ok _, .error _ => isFalse (fun e => by injection e)
  | .error _, .ok _ => isFalse (fun e => by injection e)

/-! ### the records of `ToyScheme.lean` are valid -/

/-- `r1` = `r0` after `set_udp4(30303)` signed with its own key -/
theorem r1_valid : Valid tinyS r1 :=
  (step_ok_facts tinyS_lawful r0_valid call1_ok step1_ok).1

/-- `r2` = `r1` after `insert("x", 7)` signed with the other key `pk1` -/
theorem r2_valid : Valid tinyS r2 :=
  (step_ok_facts tinyS_lawful r1_valid (call2_ok r1) step2_ok).1

/-! ### … and this is what they look like on the wire

`r0` = `[sig = 01 02 03 0d, seq = 1, "id" ↦ "v4", "t" ↦ 01 02 03]`: the list header `0xd1`
(17 bytes of payload), the 4-byte signature `84 0102030d`, the sequence number `01`, then the pairs. -/

def r0Bytes : Bytes :=
  [209, 132, 1, 2, 3, 13, 1, 130, 105, 100, 130, 118, 52, 116, 131, 1, 2, 3]

def r1Bytes : Bytes :=
  [216, 132, 1, 2, 3, 20, 2, 130, 105, 100, 130, 118, 52, 116, 131, 1, 2, 3,
   131, 117, 100, 112, 130, 118, 95]

def r2Bytes : Bytes :=
  [216, 131, 9, 9, 21, 3, 130, 105, 100, 130, 118, 52, 116, 130, 9, 9,
   131, 117, 100, 112, 130, 118, 95, 120, 7]

theorem r0_encode : r0.encode = r0Bytes := by decide
theorem r1_encode : r1.encode = r1Bytes := by decide
theorem r2_encode : r2.encode = r2Bytes := by decide

/-- "enr:0YQBAgMNAYJpZIJ2NHSDAQID" -/
def r0Text : Bytes :=
  [101, 110, 114, 58, 48, 89, 81, 66, 65, 103, 77, 78, 65, 89, 74, 112, 90, 73, 74, 50, 78, 72, 83,
   68, 65, 81, 73, 68]

theorem r0_toText : r0.toText = r0Text := by decide

/-! ### byte strings that are *not* records (each differs from `r0Bytes` in one respect) -/

/-- the two pairs of `r0` in the wrong order: `"t"` before `"id"` -/
def r0Swapped : Bytes :=
  [209, 132, 1, 2, 3, 13, 1, 116, 131, 1, 2, 3, 130, 105, 100, 130, 118, 52]

/-- `r0` with its outer length in the long form `f8 11` (non-canonical for 17 < 56 bytes) -/
def r0LongHeader : Bytes :=
  [248, 17, 132, 1, 2, 3, 13, 1, 130, 105, 100, 130, 118, 52, 116, 131, 1, 2, 3]

/-- `r0` with the last byte of the value of `"t"` (the public key) changed from 3 to 4 -/
def r0TamperedValue : Bytes :=
  [209, 132, 1, 2, 3, 13, 1, 130, 105, 100, 130, 118, 52, 116, 131, 1, 2, 4]

/-- `r0` with the last byte of the signature changed from 13 to 14 -/
def r0TamperedSig : Bytes :=
  [209, 132, 1, 2, 3, 14, 1, 130, 105, 100, 130, 118, 52, 116, 131, 1, 2, 3]

/-- `r0` with the sequence number 1 replaced by 128 (`81 80`), signature kept -/
def r0TamperedSeq : Bytes :=
  [210, 132, 1, 2, 3, 13, 129, 128, 130, 105, 100, 130, 118, 52, 116, 131, 1, 2, 3]

end EnrVerif
