/-
  Shared material for the non-vacuity examples of the property modules (`Props/`): the toy scheme
  `tinyS` and its concrete records `r0`, `r1`, `r2` (`Proofs/ToyScheme.lean`) in byte form, and some
  concrete byte strings the decoder rejects.

  `decode`'s loops (`decodePairs`, `decodeBytesList`, `decodeMany`) are defined by well-founded
  recursion, which `decide`/`rfl` of the elaborator do not unfold; the kernel does, so concrete
  decoder runs are checked with `decide +kernel` (plain kernel reduction: no compiler, no axiom).
  `Except` has no `DecidableEq` instance in core; the one below is what those `decide`s use.
-/
import EnrVerif.Proofs.ToyScheme

namespace EnrVerif

instance exceptDecEq {ε α : Type} [DecidableEq ε] [DecidableEq α] : DecidableEq (Except ε α)
  | .ok a, .ok b => if h : a = b then isTrue (by rw [h]) else isFalse (fun e => h (by injection e))
  | .error a, .error b =>
    if h : a = b then isTrue (by rw [h]) else isFalse (fun e => h (by injection e))
  | .ok _, .error _ => isFalse (fun e => by injection e)
  | .error _, .ok _ => isFalse (fun e => by injection e)

deriving instance DecidableEq for Res
deriving instance DecidableEq for Prepared
deriving instance DecidableEq for Builder

/-! ### the records of `ToyScheme.lean` are valid -/

/-- `r1` = `r0` after `set_udp4(30303)` signed with its own key -/
theorem r1_valid : Valid tinyS r1 :=
  (step_ok_facts tinyS_lawful r0_valid call1_ok step1_ok).1

/-- `r2` = `r1` after `insert("x", 7)` signed with the other key `pk1` -/
theorem r2_valid : Valid tinyS r2 :=
  (step_ok_facts tinyS_lawful r1_valid (call2_ok r1) step2_ok).1

/-! ### … and this is what they look like on the wire

`r0` = `[sig = 01 02 03 0d, seq = 1, "id" ↦ "v4", "t" ↦ 01 02 03]`: the list header `0xd1`
(17 bytes of payload), the 4-byte signature `84 0102030d`, the sequence number `01`, then the pairs. -/

def r0Bytes : Bytes :=
  [209, 132, 1, 2, 3, 13, 1, 130, 105, 100, 130, 118, 52, 116, 131, 1, 2, 3]

def r1Bytes : Bytes :=
  [216, 132, 1, 2, 3, 20, 2, 130, 105, 100, 130, 118, 52, 116, 131, 1, 2, 3,
   131, 117, 100, 112, 130, 118, 95]

def r2Bytes : Bytes :=
  [216, 131, 9, 9, 21, 3, 130, 105, 100, 130, 118, 52, 116, 130, 9, 9,
   131, 117, 100, 112, 130, 118, 95, 120, 7]

theorem r0_encode : r0.encode = r0Bytes := by decide
theorem r1_encode : r1.encode = r1Bytes := by decide
theorem r2_encode : r2.encode = r2Bytes := by decide

/-- "enr:0YQBAgMNAYJpZIJ2NHSDAQID" -/
def r0Text : Bytes :=
  [101, 110, 114, 58, 48, 89, 81, 66, 65, 103, 77, 78, 65, 89, 74, 112, 90, 73, 74, 50, 78, 72, 83,
   68, 65, 81, 73, 68]

theorem r0_toText : r0.toText = r0Text := by decide

/-- "enr:2IQBAgMUAoJpZIJ2NHSDAQIDg3VkcIJ2Xw" (25 bytes of RLP, 34 characters: the last one carries
    four trailing zero bits) -/
def r1Text : Bytes :=
  [101, 110, 114, 58, 50, 73, 81, 66, 65, 103, 77, 85, 65, 111, 74, 112, 90, 73, 74, 50, 78, 72,
   83, 68, 65, 81, 73, 68, 103, 51, 86, 107, 99, 73, 74, 50, 88, 119]

theorem r1_toText : r1.toText = r1Text := by decide

theorem r012_valid : ∀ r ∈ [r0, r1, r2], Valid tinyS r := by
  intro r hr
  simp only [List.mem_cons, List.not_mem_nil, or_false] at hr
  rcases hr with rfl | rfl | rfl
  · exact r0_valid
  · exact r1_valid
  · exact r2_valid

/-- the decoder, run by the kernel on the 18 literal bytes, returns `r0` and consumes everything -/
theorem r0Bytes_decodes : decode tinyS r0Bytes = .ok (r0, []) := by decide +kernel

/-- its RLP header: a list announcing 17 bytes, and 17 bytes follow (one complete item) -/
theorem r0Bytes_header : decodeHeader r0Bytes = .ok (⟨true, 17⟩, r0Bytes.drop 1) := by decide

/-- `r0Bytes` satisfies the declarative description of a record, shown by exhibiting signature,
    sequence number and pairs (no decoder involved) -/
theorem r0Bytes_wellFormed : WellFormed tinyS r0Bytes :=
  ⟨[1, 2, 3, 13], 1, content0, by decide, by decide, by decide, r0_contentOK, by decide,
   pk0, r0_pub, by decide⟩

/-! ### a record with every kind of entry: six more own-key updates of `r0` -/

/-- the toy signer's answer to an update of `r` with `pk0` -/
def tinyAns (r : Record) (op : Op tinyS) : Option Bytes :=
  (signRequest tinyS r op pk0).map (tinySign pk0)

/-- the record after that update -/
def tinyUpd (r : Record) (op : Op tinyS) : Record := (step tinyS r op pk0 (tinyAns r op)).2

/-- 2001:db8::1 -/
def ip6x : Bytes := [32, 1, 13, 184, 0, 0, 0, 0, 0, 0, 0, 0, 0, 0, 0, 1]

def opA : Op tinyS := .setUdpSocket [10, 0, 0, 1] 30303
def opB : Op tinyS := .setTcp4 80
def opC : Op tinyS := .setIp ip6x
def opD : Op tinyS := .setClientInfo [97] [98, 98] (some [99])
def opE : Op tinyS := .insert [120] (.bytes [7, 7])
def opF : Op tinyS := .setTcpSocket ip6x 443

def rA : Record := tinyUpd r0 opA
def rB : Record := tinyUpd rA opB
def rC : Record := tinyUpd rB opC
def rD : Record := tinyUpd rC opD
def rE : Record := tinyUpd rD opE
def rF : Record := tinyUpd rE opF

section
set_option maxRecDepth 100000

theorem stepA_ok : step tinyS r0 opA pk0 (tinyAns r0 opA) = (.ok .unit, rA) := by rfl
theorem stepB_ok : step tinyS rA opB pk0 (tinyAns rA opB) = (.ok (.prevPort none), rB) := by rfl
theorem stepC_ok : step tinyS rB opC pk0 (tinyAns rB opC) = (.ok (.prevIp none), rC) := by rfl
theorem stepD_ok : step tinyS rC opD pk0 (tinyAns rC opD) = (.ok .unit, rD) := by rfl
theorem stepE_ok : step tinyS rD opE pk0 (tinyAns rD opE) = (.ok (.prevRaw none), rE) := by rfl
theorem stepF_ok : step tinyS rE opF pk0 (tinyAns rE opF) = (.ok .unit, rF) := by rfl

/-- the result, written out: 9 pairs, sequence number 7, 85 bytes -/
theorem rF_eq : rF =
    { seq := 7, nodeId := [1, 2, 3],
      content :=
        [(kClient, [197, 97, 130, 98, 98, 99]), (kId, [130, 118, 52]), (kIp, [132, 10, 0, 0, 1]),
         (kIp6, 144 :: ip6x), (kT, [131, 1, 2, 3]), (kTcp, [80]), (kTcp6, [130, 1, 187]),
         (kUdp, [130, 118, 95]), ([120], [130, 7, 7])],
      sig := [1, 2, 3, 80] } := by decide

end

theorem opsAF_wf : opA.WF ∧ opB.WF ∧ opC.WF ∧ opD.WF ∧ opE.WF ∧ opF.WF :=
  ⟨⟨.inl rfl, by decide⟩, (by decide : (80 : Nat) < 65536), .inr rfl,
   ⟨by decide, by decide, by decide, fun x hx => by cases hx; decide⟩,
   ⟨by decide, (by decide : ([7, 7] : Bytes).length < 2 ^ 64)⟩, ⟨.inr rfl, by decide⟩⟩

theorem rF_valid : Valid tinyS rF := by
  obtain ⟨wA, wB, wC, wD, wE, wF⟩ := opsAF_wf
  have hA := (step_ok_facts tinyS_lawful r0_valid (callOK_tiny r0 opA pk0 wA) stepA_ok).1
  have hB := (step_ok_facts tinyS_lawful hA (callOK_tiny rA opB pk0 wB) stepB_ok).1
  have hC := (step_ok_facts tinyS_lawful hB (callOK_tiny rB opC pk0 wC) stepC_ok).1
  have hD := (step_ok_facts tinyS_lawful hC (callOK_tiny rC opD pk0 wD) stepD_ok).1
  have hE := (step_ok_facts tinyS_lawful hD (callOK_tiny rD opE pk0 wE) stepE_ok).1
  exact (step_ok_facts tinyS_lawful hE (callOK_tiny rE opF pk0 wF) stepF_ok).1

/-- a seventh update, `remove_insert`: remove `udp` (named twice) and `"x"`, insert `"y"` twice and
    `tcp` = `1f 90` -/
def opG : Op tinyS :=
  .removeInsert [kUdp, kUdp, [120]] [([121], [1]), ([121], [2, 2]), (kTcp, [31, 144])]

def rG : Record := tinyUpd rF opG

set_option maxRecDepth 100000 in
/-- it returns the removed values (the second `udp`: nothing left to remove) and the values the
    inserted keys had just before -/
theorem stepG_ok : step tinyS rF opG pk0 (tinyAns rF opG) =
    (.ok (.prevLists [some [130, 118, 95], none, some [130, 7, 7]] [none, some [1], some [80]]), rG) := by
  decide +kernel

/-! ### records near the size limit (for C09)

The size theorems speak about 64-byte signatures; `step` and `build` do not look into the signature,
so a `tinyS` record carrying 64 bytes in that field will do (it is not `Valid`, and need not be). -/

def sig64 : Bytes := List.replicate 64 1

/-- 192 bytes, at sequence number 127 (the next one, 128, takes one byte more on the wire) -/
def rBig : Record :=
  ⟨127, [1, 2, 3],
   [(kId, encBytes vV4), (kT, encBytes [1, 2, 3]), ([122], encBytes (List.replicate 109 0))], sig64⟩

/-- `insert("zz", [0; m])` -/
def insZ (m : Nat) : Op tinyS := .insert [122, 122] (.bytes (List.replicate m 0))

/-- what `insZ 102` prepares on `rBig` when the pre-signing size check is left out -/
def pBig : Prepared :=
  match prepareG tinyS rBig (insZ 102) pk0 false with
  | .ok p => p
  | .error _ => ⟨rBig, .unit⟩

/-- the empty builder plus `"z" ↦ [0; n]` -/
def bldZ (n : Nat) : Builder := ({} : Builder).addValue [122] (.bytes (List.replicate n 0))

/-! ### a byte string that is *not* a record -/

/-- the two pairs of `r0` in the wrong order, `"t"` before `"id"` (still one complete RLP item) -/
def r0Swapped : Bytes :=
  [209, 132, 1, 2, 3, 13, 1, 116, 131, 1, 2, 3, 130, 105, 100, 130, 118, 52]

/-- the decoder, run on it, reports the pairs as unsorted -/
theorem r0Swapped_rejected : decode tinyS r0Swapped = .error (.custom .unsorted) := by
  decide +kernel

theorem r0Swapped_header : decodeHeader r0Swapped = .ok (⟨true, 17⟩, r0Swapped.drop 1) := by
  decide

/-- … so it does not satisfy the declarative description either -/
theorem r0Swapped_not_wellFormed : ¬ WellFormed tinyS r0Swapped := by
  intro h
  obtain ⟨r, hr⟩ := (decode_iff_wellformed tinyS r0Swapped).2 h
  rw [r0Swapped_rejected] at hr
  cases hr

#print axioms r0Bytes_decodes
#print axioms r0Swapped_rejected

end EnrVerif
