/-
  Soundness of the driver's C08 predicate for `build` calls ("the reported error kind matches one
  of the causes that apply", the field `adm` of `Driver.buildModel`, `Model/Driver.lean`): when the
  implementation behaves like the model, the predicate never fires.

  `(buildModel d b pk oracle signerFailed).adm` is the list of error-kind strings the driver accepts
  for a failing `build`: the value errors of every pair of the content to be signed, the
  signing-key precondition, `ExceedsMaxSize` when the estimated size plus the builder's 8-byte slack
  exceeds the limit, and `SigningError` when the signer failed.  The theorems below show that the
  error kind of the MODEL's own `Builder.build` is always in that list, for every scheme, builder,
  key and signer's answer.  The only hypothesis: when the answer handed to the model is `none`
  and the build gets as far as the signer, the flag `signerFailed` is set (`handleBuild` computes
  `oracle` as the first answer of the signer's log and `signerFailed` as "some answer of the log is
  `none`", so this holds whenever the signer was asked at all).

  Everything lives in `EnrVerif.BuildAdm` so that the names cannot collide with other proof files.
-/
import EnrVerif.Model.Driver
import EnrVerif.Proofs.SizeLemmas

set_option linter.unusedVariables false

namespace EnrVerif.BuildAdm
open EnrVerif.Driver

/-! ### the parts of `adm` -/

/-- the content `build` signs: the builder's pairs plus `id` and the signer's key -/
def c2 (S : Scheme) (b : Builder) (pk : S.PK) : Content :=
  withPubkey S (Map.insert b.content kId (encBytes vV4)) pk

/-- the driver's per-pair check -/
def pairErr (kv : Bytes × Bytes) : Option String :=
  match checkReserved kv.1 kv.2 with
  | .error e => some (enrErrStr e)
  | .ok _ => none

def valueErrs (S : Scheme) (b : Builder) (pk : S.PK) : List String :=
  (c2 S b pk).filterMap pairErr

def keyErrs (S : Scheme) (b : Builder) (pk : S.PK) : List String :=
  match checkSigningKey S (c2 S b pk) pk with
  | .error e => [enrErrStr e]
  | .ok _ => []

/-- the length of the signature the estimate is made with -/
def sigLen (oracle : Option Bytes) : Nat :=
  match oracle with
  | some sg => sg.length
  | none => 64

/-- the size estimated without the signer's answer: a signature of the same length, all zeros -/
def est (S : Scheme) (b : Builder) (pk : S.PK) (oracle : Option Bytes) : Nat :=
  ({ seq := b.seq, nodeId := [], content := c2 S b pk,
     sig := List.replicate (sigLen oracle) 0 } : Record).size

def sizeErrs (S : Scheme) (b : Builder) (pk : S.PK) (oracle : Option Bytes) : List String :=
  if est S b pk oracle + 8 > MAX_ENR_SIZE then ["ExceedsMaxSize"] else []

def faultErrs (signerFailed : Bool) : List String :=
  if signerFailed then ["SigningError"] else []

/-- `adm` in terms of its parts. -/
theorem adm_eq (d : DS) (b : Builder) (pk : d.S.PK) (oracle : Option Bytes) (sf : Bool) :
    (buildModel d b pk oracle sf).adm =
      valueErrs d.S b pk ++ keyErrs d.S b pk ++ sizeErrs d.S b pk oracle ++ faultErrs sf := rfl

/-! ### membership in the parts -/

theorem mem_adm_of_valueErrs (d : DS) (b : Builder) (pk : d.S.PK) (oracle : Option Bytes)
    (sf : Bool) (s : String) (h : s ∈ valueErrs d.S b pk) : s ∈ (buildModel d b pk oracle sf).adm := by
  rw [adm_eq]
  exact List.mem_append_left _ (List.mem_append_left _ (List.mem_append_left _ h))

theorem mem_adm_of_keyErrs (d : DS) (b : Builder) (pk : d.S.PK) (oracle : Option Bytes)
    (sf : Bool) (s : String) (h : s ∈ keyErrs d.S b pk) : s ∈ (buildModel d b pk oracle sf).adm := by
  rw [adm_eq]
  exact List.mem_append_left _ (List.mem_append_left _ (List.mem_append_right _ h))

theorem mem_adm_of_sizeErrs (d : DS) (b : Builder) (pk : d.S.PK) (oracle : Option Bytes)
    (sf : Bool) (s : String) (h : s ∈ sizeErrs d.S b pk oracle) :
    s ∈ (buildModel d b pk oracle sf).adm := by
  rw [adm_eq]
  exact List.mem_append_left _ (List.mem_append_right _ h)

theorem mem_adm_of_fault (d : DS) (b : Builder) (pk : d.S.PK) (oracle : Option Bytes) :
    "SigningError" ∈ (buildModel d b pk oracle true).adm := by
  rw [adm_eq]
  exact List.mem_append_right _ (by simp [faultErrs])

/-! ### value errors: the driver's list against the model's loop -/

/-- the error of the sanitising loop is the `checkReserved` error of one of the pairs -/
theorem checkAll_error_mem {c : Content} {e : EnrErr} (h : Builder.checkAll c = .error e) :
    enrErrStr e ∈ c.filterMap pairErr := by
  induction c with
  | nil => simp [Builder.checkAll] at h
  | cons kv rest ih =>
    obtain ⟨k, v⟩ := kv
    unfold Builder.checkAll at h
    rw [List.filterMap_cons]
    split at h
    · rename_i e' hc
      simp only [Except.error.injEq] at h
      subst h
      have hp : pairErr (k, v) = some (enrErrStr e') := by
        show (match checkReserved k v with
          | .error e => some (enrErrStr e)
          | .ok _ => none) = _
        rw [hc]
      rw [hp]
      exact List.mem_cons_self
    · have := ih h
      split
      · exact this
      · exact List.mem_cons_of_mem _ this

/-- when the sanitising loop succeeds no pair has a value error -/
theorem checkAll_ok_filterMap {c : Content} (h : Builder.checkAll c = .ok ()) :
    c.filterMap pairErr = [] := by
  induction c with
  | nil => rfl
  | cons kv rest ih =>
    obtain ⟨k, v⟩ := kv
    unfold Builder.checkAll at h
    split at h
    · simp at h
    · rename_i hc
      have hp : pairErr (k, v) = none := by
        show (match checkReserved k v with
          | .error e => some (enrErrStr e)
          | .ok _ => none) = _
        rw [hc]
      rw [List.filterMap_cons, hp]
      exact ih h

/-! ### the cases of `prepare` / `build` -/

/-- `prepare` is the loop, then the signing-key check, on the content to be signed. -/
theorem prepare_eq (S : Scheme) (b : Builder) (pk : S.PK) :
    Builder.prepare S b pk =
      match Builder.checkAll (c2 S b pk) with
      | .error e => .error e
      | .ok () =>
        match checkSigningKey S (c2 S b pk) pk with
        | .error e => .error e
        | .ok () => .ok { b with content := c2 S b pk } := rfl

/-- A failing `prepare` fails in the loop (a value error of one pair) or in the signing-key
    check. -/
theorem prepare_error_cases {S : Scheme} {b : Builder} {pk : S.PK} {e : EnrErr}
    (h : Builder.prepare S b pk = .error e) :
    Builder.checkAll (c2 S b pk) = .error e ∨
      (Builder.checkAll (c2 S b pk) = .ok () ∧ checkSigningKey S (c2 S b pk) pk = .error e) := by
  rw [prepare_eq] at h
  split at h
  · rename_i e' hc
    simp only [Except.error.injEq] at h
    subst h
    exact Or.inl hc
  · rename_i hc
    split at h
    · rename_i e' hk
      simp only [Except.error.injEq] at h
      subst h
      exact Or.inr ⟨hc, hk⟩
    · simp at h

/-- A successful `prepare` yields the builder with the content to be signed. -/
theorem prepare_ok_eq {S : Scheme} {b b' : Builder} {pk : S.PK}
    (h : Builder.prepare S b pk = .ok b') : b' = { b with content := c2 S b pk } := by
  rw [prepare_eq] at h
  split at h
  · simp at h
  · split at h
    · simp at h
    · simp only [Except.ok.injEq] at h
      exact h.symm

/-- The four ways `build` can go. -/
theorem build_cases (S : Scheme) (b : Builder) (pk : S.PK) (oracle : Option Bytes) :
    (∃ e, Builder.prepare S b pk = .error e ∧ Builder.build S b pk oracle = .err e) ∨
    (∃ b', Builder.prepare S b pk = .ok b' ∧ oracle = none ∧
      Builder.build S b pk oracle = .err .signingError) ∨
    (∃ b' sig, Builder.prepare S b pk = .ok b' ∧ oracle = some sig ∧
      b'.rlpContent.length + sig.length + 8 > MAX_ENR_SIZE ∧
      Builder.build S b pk oracle = .err .exceedsMaxSize) ∨
    (∃ b' sig, Builder.prepare S b pk = .ok b' ∧ oracle = some sig ∧
      ¬ b'.rlpContent.length + sig.length + 8 > MAX_ENR_SIZE ∧
      Builder.build S b pk oracle =
        .ok { seq := b'.seq, nodeId := nodeIdOf S pk, content := b'.content, sig := sig }) := by
  unfold Builder.build
  cases hp : Builder.prepare S b pk with
  | error e => exact Or.inl ⟨e, rfl, rfl⟩
  | ok b' =>
    cases oracle with
    | none => exact Or.inr (Or.inl ⟨b', rfl, rfl, rfl⟩)
    | some sig =>
      by_cases hsz : b'.rlpContent.length + sig.length + 8 > MAX_ENR_SIZE
      · exact Or.inr (Or.inr (Or.inl ⟨b', sig, rfl, rfl, hsz, by simp only [if_pos hsz]⟩))
      · exact Or.inr (Or.inr (Or.inr ⟨b', sig, rfl, rfl, hsz, by simp only [if_neg hsz]⟩))

/-! ### the builder's bound against the driver's estimate -/

/-- The builder's bound `rlp_content.len() + signature.len() + 8` never exceeds the real size plus
    8, and both depend on the signature only through its length (for the bound) or are taken with a
    signature of that length (the estimate): if the builder refuses for size, so does the driver's
    estimate. -/
theorem bound_le_est (S : Scheme) (b : Builder) (pk : S.PK) (sig : Bytes) :
    ({ b with content := c2 S b pk } : Builder).rlpContent.length + sig.length + 8 ≤
      est S b pk (some sig) + 8 := by
  have h := Sz.builderBound_le_size_add8 b.seq [] (c2 S b pk) (List.replicate sig.length 0)
  unfold Sz.builderBound at h
  rw [List.length_replicate] at h
  exact h

/-! ### soundness -/

/-- `prepare` failed (the signer is never asked): the model's error kind is accepted, whatever the
    answer and the flag. -/
theorem adm_of_prepare_error (d : DS) (b : Builder) (pk : d.S.PK) (oracle : Option Bytes)
    (sf : Bool) (e : EnrErr) (h : Builder.prepare d.S b pk = .error e) :
    enrErrStr e ∈ (buildModel d b pk oracle sf).adm := by
  rcases prepare_error_cases h with hc | ⟨_, hk⟩
  · exact mem_adm_of_valueErrs d b pk oracle sf _ (checkAll_error_mem hc)
  · apply mem_adm_of_keyErrs d b pk oracle sf
    unfold keyErrs
    rw [hk]
    exact List.mem_singleton.mpr rfl

/-- `prepare` succeeded, the signer answered, and the builder's size check refused. -/
theorem adm_of_size (d : DS) (b b' : Builder) (pk : d.S.PK) (sig : Bytes) (sf : Bool)
    (hp : Builder.prepare d.S b pk = .ok b')
    (hsz : b'.rlpContent.length + sig.length + 8 > MAX_ENR_SIZE) :
    "ExceedsMaxSize" ∈ (buildModel d b pk (some sig) sf).adm := by
  apply mem_adm_of_sizeErrs d b pk (some sig) sf
  rw [prepare_ok_eq hp] at hsz
  have hle := bound_le_est d.S b pk sig
  unfold sizeErrs
  rw [if_pos (by omega)]
  exact List.mem_singleton.mpr rfl

/-- **Soundness**: the error kind of the model's `build` is always accepted, provided the flag
    `signerFailed` is set when the build reaches the signer and the answer is missing. -/
theorem adm_sound_prepared (d : DS) (b : Builder) (pk : d.S.PK) (oracle : Option Bytes) (sf : Bool)
    (hsf : (∃ b', Builder.prepare d.S b pk = .ok b') → oracle = none → sf = true)
    (e : EnrErr) (h : Builder.build d.S b pk oracle = .err e) :
    enrErrStr e ∈ (buildModel d b pk oracle sf).adm := by
  rcases build_cases d.S b pk oracle with ⟨e', hp, hb⟩ | ⟨b', hp, ho, hb⟩ | ⟨b', sig, hp, ho, hsz, hb⟩ |
      ⟨b', sig, _, _, _, hb⟩
  · rw [hb] at h
    simp only [Res.err.injEq] at h
    rw [← h]
    exact adm_of_prepare_error d b pk oracle sf e' hp
  · rw [hb] at h
    simp only [Res.err.injEq] at h
    rw [← h, hsf ⟨b', hp⟩ ho]
    exact mem_adm_of_fault d b pk oracle
  · rw [hb] at h
    simp only [Res.err.injEq] at h
    rw [← h, ho]
    exact adm_of_size d b b' pk sig sf hp hsz
  · rw [hb] at h
    simp at h

/-- **Soundness, as stated for the monitor**: a missing answer means the signer was asked and
    failed. -/
theorem adm_sound (d : DS) (b : Builder) (pk : d.S.PK) (oracle : Option Bytes) (sf : Bool)
    (hsf : oracle = none → sf = true)
    (e : EnrErr) (h : Builder.build d.S b pk oracle = .err e) :
    enrErrStr e ∈ (buildModel d b pk oracle sf).adm :=
  adm_sound_prepared d b pk oracle sf (fun _ => hsf) e h

/-- the signer's answer `handleBuild` hands to the model: the first answer of the log -/
def logOracle (log : List (Bytes × Option Bytes)) : Option Bytes :=
  match log with
  | (_, a) :: _ => a
  | [] => none

/-- The arguments as `handleBuild` computes them from the signer's log: `oracle` = the first answer,
    `signerFailed = log.any (·.2.isNone)`.  If the log agrees with the model (one entry exactly when
    the build reaches the signer), the driver's check `adm.contains (resKind res)` passes for the
    model's own error kind. -/
theorem adm_sound_log (d : DS) (b : Builder) (pk : d.S.PK) (log : List (Bytes × Option Bytes))
    (hlog : (∃ b', Builder.prepare d.S b pk = .ok b') → log ≠ [])
    (e : EnrErr) (h : Builder.build d.S b pk (logOracle log) = .err e) :
    (buildModel d b pk (logOracle log) (log.any (·.2.isNone))).adm.contains (enrErrStr e) = true := by
  rw [List.contains_iff_mem]
  apply adm_sound_prepared d b pk _ _ _ e h
  intro hp ho
  cases log with
  | nil => exact absurd rfl (hlog hp)
  | cons x t =>
    obtain ⟨m, a⟩ := x
    simp only [logOracle] at ho
    subst ho
    simp

#print axioms adm_eq
#print axioms checkAll_error_mem
#print axioms checkAll_ok_filterMap
#print axioms prepare_error_cases
#print axioms build_cases
#print axioms bound_le_est
#print axioms adm_of_prepare_error
#print axioms adm_of_size
#print axioms adm_sound_prepared
#print axioms adm_sound
#print axioms adm_sound_log

end EnrVerif.BuildAdm
