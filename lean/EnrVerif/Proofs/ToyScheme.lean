/-
  A tiny key scheme the kernel can evaluate, used to show that the hypotheses of the property
  theorems are satisfiable (non-vacuity).  The real schemes (`Model/Schemes.lean`) use Keccak and
  elliptic curves, which `decide`/`rfl` cannot evaluate in reasonable time.

  `tinyS`: a public key is a byte string of at most 8 bytes stored under the key "t"; the node id
  is the key itself; the "signature" of `msg` under `pk` is `pk ++ [msg.length mod 256]` (so a
  signature has to be recomputed whenever the signed payload changes its length, and a signature
  by another key never verifies).
-/
import EnrVerif.Proofs.StepLemmas

set_option linter.unusedVariables false

namespace EnrVerif

/-- "t" -/
def kT : Bytes := [116]

abbrev TinyPK := { b : Bytes // b.length ≤ 8 }

def tinyEnrToPublic (c : Content) : Except RlpErr TinyPK :=
  match Map.lookup c kT with
  | some raw =>
    match decodeBytes raw false with
    | .ok (b, _) => if h : b.length ≤ 8 then .ok ⟨b, h⟩ else .error (.custom .invalidPubkey)
    | .error e => .error e
  | none => .error (.custom .unknownSignature)

/-- the toy signer -/
def tinySign (pk : TinyPK) (msg : Bytes) : Bytes := pk.val ++ [UInt8.ofNat msg.length]

def tinyS : Scheme where
  PK := TinyPK
  enrKey _ := kT
  encodePub pk := pk.val
  uncompressed pk := pk.val
  digest b := b
  verify pk msg sig := decide (sig = tinySign pk msg)
  enrToPublic := tinyEnrToPublic

theorem tinyS_lawful : tinyS.Lawful where
  pub_inj := fun a b _ h => Subtype.ext h
  key_not_reserved := fun _ =>
    (by decide : kT ≠ kId ∧ isPortKey kT = false ∧ kT ≠ kIp ∧ kT ≠ kIp6)
  pub_local := by
    intro c1 c2 h
    have h' : Map.lookup c1 kT = Map.lookup c2 kT := h ⟨[], by decide⟩
    show tinyEnrToPublic c1 = tinyEnrToPublic c2
    unfold tinyEnrToPublic
    rw [h']

/-- every toy key satisfies the per-key length bound -/
theorem tiny_keyOK (pk : TinyPK) : KeyOK tinyS pk :=
  ⟨Nat.lt_of_le_of_lt pk.property (by decide), (by decide : kT.length < 2 ^ 64)⟩

/-- the toy signer's answers satisfy `SigOK` -/
theorem tinySign_sigOK (pk : TinyPK) (msg : Bytes) : SigOK tinyS pk msg (some (tinySign pk msg)) := by
  intro sig hs
  simp only [Option.some.injEq] at hs
  subst hs
  refine ⟨by simp [tinyS], ?_⟩
  have := pk.property
  simp only [tinySign, List.length_append, List.length_cons, List.length_nil]
  omega

/-! ### a concrete valid record -/

def pk0 : TinyPK := ⟨[1, 2, 3], by decide⟩
def pk1 : TinyPK := ⟨[9, 9], by decide⟩

def content0 : Content := [(kId, encBytes vV4), (kT, encBytes [1, 2, 3])]

/-- the payload `[seq = 1, "id", "v4", "t", 0x010203]` -/
def payload0 : Bytes := encList (encUint 1 ++ Record.pairsBytes content0)

def r0 : Record :=
  { seq := 1, nodeId := [1, 2, 3], content := content0, sig := tinySign pk0 payload0 }

theorem r0_contentOK : ContentOK r0.content := by
  refine ⟨by decide, ?_⟩
  intro k v hm
  simp only [r0, content0, List.mem_cons, Prod.mk.injEq, List.not_mem_nil, or_false] at hm
  rcases hm with ⟨rfl, rfl⟩ | ⟨rfl, rfl⟩
  · exact ⟨by decide, valueOK_id⟩
  · refine ⟨by decide, ?_⟩
    unfold ValueOK
    rw [if_neg (by decide), if_neg (by decide), if_neg (by decide), if_neg (by decide),
      if_neg (by decide)]
    exact Or.inl ⟨[1, 2, 3], by decide, rfl⟩

set_option maxRecDepth 8192 in
theorem r0_pub : tinyS.enrToPublic r0.content = .ok pk0 := rfl

theorem r0_valid : Valid tinyS r0 where
  seq_lt := by decide
  sig_len := by decide
  content := r0_contentOK
  id_v4 := by decide
  size_le := by decide
  authentic := ⟨pk0, r0_pub, by decide, by decide⟩

/-- `r0` is what the builder produces from the empty builder with the toy signer -/
theorem r0_built : Builder.build tinyS {} pk0 (some (tinySign pk0 payload0)) = .ok r0 := by
  rfl

/-! ### concrete update calls on it -/

/-- `set_udp4(30303)` signed with the record's own key -/
def call1 : Call tinyS :=
  { op := .setUdp4 30303, pk := pk0,
    oracle := (signRequest tinyS r0 (.setUdp4 30303) pk0).map (tinySign pk0) }

/-- `insert("x", 7u8)` signed with a different key: re-keys the record -/
def call2 (r : Record) : Call tinyS :=
  { op := .insert [120] (.uint 7), pk := pk1,
    oracle := (signRequest tinyS r (.insert [120] (.uint 7)) pk1).map (tinySign pk1) }

/-- a call whose signer fails -/
def call3 : Call tinyS := { op := .removeKey [120], pk := pk1, oracle := none }

/-- a call answered by the toy signer is `CallOK` whenever its arguments are in range -/
theorem callOK_tiny (r : Record) (op : Op tinyS) (pk : TinyPK) (hwf : op.WF) :
    CallOK tinyS r ⟨op, pk, (signRequest tinyS r op pk).map (tinySign pk)⟩ := by
  refine ⟨hwf, tiny_keyOK pk, ?_⟩
  intro m hm
  simp only [hm, Option.map_some]
  exact tinySign_sigOK pk m

theorem call1_ok : CallOK tinyS r0 call1 := callOK_tiny r0 _ _ (by decide : (30303 : Nat) < 65536)

def r1 : Record := (step tinyS r0 call1.op call1.pk call1.oracle).2

theorem step1_ok : step tinyS r0 call1.op call1.pk call1.oracle = (.ok (.prevPort none), r1) := by
  rfl

theorem call2_ok (r : Record) : CallOK tinyS r (call2 r) := callOK_tiny r _ _ (by decide : ([120] : Bytes).length < 2 ^ 64 ∧ (7 : Nat) < 2 ^ 64)

def r2 : Record := (step tinyS r1 (call2 r1).op (call2 r1).pk (call2 r1).oracle).2

theorem step2_ok :
    step tinyS r1 (call2 r1).op (call2 r1).pk (call2 r1).oracle = (.ok (.prevRaw none), r2) := by
  rfl

theorem call3_ok (r : Record) : CallOK tinyS r call3 :=
  ⟨trivial, tiny_keyOK _, fun m _ sig hs => by simp [call3] at hs⟩

/-- a three-call history: own-key update, re-keying update, failed signer -/
theorem run_ok : RunOK tinyS r0 [call1, call2 r1, call3] :=
  ⟨call1_ok, by rw [step1_ok]; exact ⟨call2_ok r1, call3_ok _, trivial⟩⟩

/-! ### a valid record at the largest sequence number -/

def payloadMax : Bytes := encList (encUint (2 ^ 64 - 1) ++ Record.pairsBytes content0)

def rMax : Record :=
  { seq := 2 ^ 64 - 1, nodeId := [1, 2, 3], content := content0, sig := tinySign pk0 payloadMax }

theorem rMax_valid : Valid tinyS rMax where
  seq_lt := by decide
  sig_len := by decide
  content := r0_contentOK
  id_v4 := by decide
  size_le := by decide
  authentic := ⟨pk0, r0_pub, by decide, by decide⟩

/-- what `set_udp4(30303)` would prepare on `rMax` if its sequence number were 0 -/
def pMax : Prepared :=
  match prepareG tinyS { rMax with seq := 0 } (.setUdp4 30303) pk0 false with
  | .ok p => p
  | .error _ => ⟨rMax, .unit⟩

theorem pMax_ok : prepareG tinyS { rMax with seq := 0 } (.setUdp4 30303) pk0 false = .ok pMax := rfl

end EnrVerif
