/-
  The record (`Enr<K>`), its codec and its accessors, following `src/lib.rs` decision by decision.
-/
import EnrVerif.Model.Rlp
import EnrVerif.Model.Map

set_option linter.unusedVariables false

namespace EnrVerif

/-- What the model needs to know about a key type `K : EnrKey` (and its `PublicKey`). -/
structure Scheme where
  PK : Type
  /-- `EnrPublicKey::enr_key` -/
  enrKey : PK → Bytes
  /-- `EnrPublicKey::encode` (the bytes stored in the record) -/
  encodePub : PK → Bytes
  /-- `EnrPublicKey::encode_uncompressed` (the bytes hashed into the node id) -/
  uncompressed : PK → Bytes
  /-- `EnrKey::enr_to_public` -/
  enrToPublic : Content → Except RlpErr PK
  /-- `EnrPublicKey::verify_v4 msg sig` -/
  verify : PK → Bytes → Bytes → Bool
  /-- the hash behind `NodeId::from(public_key)` (keccak256 for every real scheme) -/
  digest : Bytes → Bytes

/-- `enr::Error` -/
inductive EnrErr
  | exceedsMaxSize | seqTooHigh | signingError | unsupportedId
  | invalidRlp (e : RlpErr)
  deriving DecidableEq, Repr

/-- Places where the Rust code can panic (`expect`, `unwrap`, slicing). -/
inductive PanicSite
  | publicKeyExpect | getExpect | getSlice | nodeIdExpect
  deriving DecidableEq, Repr

/-- Result of a call that may return an error value or panic. -/
inductive Res (α : Type)
  | ok (a : α)
  | err (e : EnrErr)
  | panic (s : PanicSite)
  deriving Repr

structure Record where
  seq : Nat
  nodeId : Bytes
  content : Content
  sig : Bytes
  deriving DecidableEq, Repr

def MAX_ENR_SIZE : Nat := 300

/- reserved keys, as ASCII bytes -/
def kId : Bytes := [105, 100]
def kIp : Bytes := [105, 112]
def kIp6 : Bytes := [105, 112, 54]
def kTcp : Bytes := [116, 99, 112]
def kTcp6 : Bytes := [116, 99, 112, 54]
def kUdp : Bytes := [117, 100, 112]
def kUdp6 : Bytes := [117, 100, 112, 54]
def kSecp : Bytes := [115, 101, 99, 112, 50, 53, 54, 107, 49]
def kEd : Bytes := [101, 100, 50, 53, 53, 49, 57]
def kClient : Bytes := [99, 108, 105, 101, 110, 116]
def vV4 : Bytes := [118, 52]

def isPortKey (k : Bytes) : Bool := k = kTcp || k = kTcp6 || k = kUdp || k = kUdp6

namespace Record

/-- `append_rlp_content` without the signature and the sequence number: the pairs -/
def pairsBytes : Content → Bytes
  | [] => []
  | (k, v) :: rest => encBytes k ++ v ++ pairsBytes rest

/-- `rlp_content()`: the signed payload, the list `[seq, k1, v1, …]` -/
def rlpContent (r : Record) : Bytes :=
  encList (encUint r.seq ++ pairsBytes r.content)

/-- `Encodable::encode` -/
def encode (r : Record) : Bytes :=
  encList (encBytes r.sig ++ encUint r.seq ++ pairsBytes r.content)

/-- `size()` -/
def size (r : Record) : Nat := r.encode.length

/-- `get_raw_rlp` -/
def getRaw (r : Record) (k : Bytes) : Option Bytes := Map.lookup r.content k

/-- `get_decodable::<Bytes>(k)` flattened: `Some(Ok(bytes))` ↦ `some bytes` -/
def getBytes (r : Record) (k : Bytes) : Option Bytes :=
  match r.getRaw k with
  | none => none
  | some v =>
    match decodeBytes v false with
    | .ok (bs, _) => some bs
    | .error _ => none

/-- `get_decodable::<u16>(k).and_then(Result::ok)` -/
def getPort (r : Record) (k : Bytes) : Option Nat :=
  match r.getRaw k with
  | none => none
  | some v =>
    match decodeUint 2 v with
    | .ok (n, _) => some n
    | .error _ => none

/-- `id()` (raw bytes; the Rust code applies `from_utf8_lossy`) -/
def id (r : Record) : Option Bytes := r.getBytes kId

def ip4 (r : Record) : Option Bytes :=
  match r.getBytes kIp with
  | some bs => if bs.length = 4 then some bs else none
  | none => none

def ip6 (r : Record) : Option Bytes :=
  match r.getBytes kIp6 with
  | some bs => if bs.length = 16 then some bs else none
  | none => none

def tcp4 (r : Record) := r.getPort kTcp
def tcp6 (r : Record) := r.getPort kTcp6
def udp4 (r : Record) := r.getPort kUdp
def udp6 (r : Record) := r.getPort kUdp6

def socket (ip : Option Bytes) (port : Option Nat) : Option (Bytes × Nat) :=
  match ip with
  | some i => match port with
    | some p => some (i, p)
    | none => none
  | none => none

def udp4Socket (r : Record) := socket r.ip4 r.udp4
def udp6Socket (r : Record) := socket r.ip6 r.udp6
def tcp4Socket (r : Record) := socket r.ip4 r.tcp4
def tcp6Socket (r : Record) := socket r.ip6 r.tcp6
def isUdpReachable (r : Record) : Bool := r.udp4Socket.isSome || r.udp6Socket.isSome
def isTcpReachable (r : Record) : Bool := r.tcp4Socket.isSome || r.tcp6Socket.isSome

/-- `Vec<Bytes>::decode` on a payload: the loop of `decode_append` -/
def decodeBytesList (payload : Bytes) : Except RlpErr (List Bytes) :=
  if payload.isEmpty then .ok []
  else
    match h : decodeBytes payload false with
    | .error e => .error e
    | .ok (b, rest) =>
      match decodeBytesList rest with
      | .error e => .error e
      | .ok bs => .ok (b :: bs)
termination_by payload.length
decreasing_by exact decodeBytes_rest_lt _ _ _ _ h

/-- `client_info()` (raw bytes of the 2 or 3 strings) -/
def clientInfo (r : Record) : Option (Bytes × Bytes × Option Bytes) :=
  match r.getRaw kClient with
  | none => none
  | some v =>
    match decodeBytes v true with
    | .error _ => none
    | .ok (payload, _) =>
      match decodeBytesList payload with
      | .ok [a, b] => some (a, b, none)
      | .ok [a, b, c] => some (a, b, some c)
      | _ => none

/-- the deprecated `get()`: `Header::decode(..).expect(..)` then `raw_data[..payload_length]` -/
def get (r : Record) (k : Bytes) : Res (Option Bytes) :=
  match r.getRaw k with
  | none => .ok none
  | some v =>
    match decodeHeader v with
    | .error _ => .panic .getExpect
    | .ok (h, rest) => if rest.length < h.len then .panic .getSlice else .ok (some (rest.take h.len))

end Record

/-- `NodeId::from(public_key)` -/
def nodeIdOf (S : Scheme) (pk : S.PK) : Bytes := S.digest (S.uncompressed pk)

namespace Record

/-- `public_key()` -/
def publicKey (S : Scheme) (r : Record) : Res S.PK :=
  match S.enrToPublic r.content with
  | .ok pk => .ok pk
  | .error _ => .panic .publicKeyExpect

/-- `verify()` -/
def verify (S : Scheme) (r : Record) : Res Bool :=
  match S.enrToPublic r.content with
  | .error _ => .panic .publicKeyExpect
  | .ok pk =>
    match r.id with
    | some i => if i = vV4 then .ok (S.verify pk r.rlpContent r.sig) else .ok false
    | none => .ok false

/-- `compare_content` -/
def compareContent (a b : Record) : Bool := a.rlpContent = b.rlpContent

/-- `PartialEq`: sequence number, node id, signature and the key/value pairs -/
def eqv (a b : Record) : Bool :=
  a.seq = b.seq && a.nodeId = b.nodeId && a.sig = b.sig && a.content = b.content

/-- what `Hash` feeds to the hasher -/
def hashFeed (r : Record) : Nat × Bytes × Bytes := (r.seq, r.nodeId, r.sig)

end Record

/-! ### Decoding -/

/-- The value of one pair, by key: what the `match key` of `Decodable::decode` produces.
    Returns the canonical raw value that is stored and the payload after the value. -/
def decodeValue (key : Bytes) (payload : Bytes) : Except RlpErr (Bytes × Bytes) :=
  if key = kId then
    match decodeBytes payload false with
    | .error e => .error e
    | .ok (i, rest) => if i = vV4 then .ok (encBytes i, rest) else .error (.custom .unsupportedId)
  else if isPortKey key then
    match decodeUint 2 payload with
    | .error e => .error e
    | .ok (p, rest) => .ok (encUint p, rest)
  else if key = kIp then
    match decodeFixed 4 payload with
    | .error e => .error e
    | .ok (ip, rest) => .ok (encBytes ip, rest)
  else if key = kIp6 then
    match decodeFixed 16 payload with
    | .error e => .error e
    | .ok (ip, rest) => .ok (encBytes ip, rest)
  else if key = kSecp || key = kEd then
    match decodeBytes payload false with
    | .error e => .error e
    | .ok (k, rest) => .ok (encBytes k, rest)
  else
    match decodeHeader payload with
    | .error e => .error e
    | .ok (h, rest) =>
      let value := rest.take h.len
      let rest' := rest.drop h.len
      if h.list then .ok (encodeHeader true h.len ++ value, rest')
      else .ok (encBytes value, rest')

theorem decodeValue_rest_le (key payload v rest : Bytes)
    (h : decodeValue key payload = .ok (v, rest)) : rest.length ≤ payload.length := by
  unfold decodeValue at h
  have hb : ∀ (p b r : Bytes) (l : Bool), decodeBytes p l = .ok (b, r) → r.length ≤ p.length :=
    fun p b r l hh => Nat.le_of_lt (decodeBytes_rest_lt p l b r hh)
  split at h
  · split at h
    · simp at h
    · rename_i i r hh
      split at h
      · simp only [Except.ok.injEq, Prod.mk.injEq] at h; rw [← h.2]; exact hb _ _ _ _ hh
      · simp at h
  · split at h
    · unfold decodeUint at h
      split at h
      · simp at h
      · rename_i p r hh
        split at hh
        · simp at hh
        · rename_i bs r' hb'
          split at hh
          · simp at hh
          · simp only [Except.ok.injEq, Prod.mk.injEq] at hh h
            rw [← h.2, ← hh.2]; exact hb _ _ _ _ hb'
    · split at h
      · unfold decodeFixed at h
        split at h
        · simp at h
        · rename_i ip r hh
          split at hh
          · simp at hh
          · rename_i bs r' hb'
            split at hh
            · simp only [Except.ok.injEq, Prod.mk.injEq] at hh h
              rw [← h.2, ← hh.2]; exact hb _ _ _ _ hb'
            · simp at hh
      · split at h
        · unfold decodeFixed at h
          split at h
          · simp at h
          · rename_i ip r hh
            split at hh
            · simp at hh
            · rename_i bs r' hb'
              split at hh
              · simp only [Except.ok.injEq, Prod.mk.injEq] at hh h
                rw [← h.2, ← hh.2]; exact hb _ _ _ _ hb'
              · simp at hh
        · split at h
          · split at h
            · simp at h
            · rename_i k r hh
              simp only [Except.ok.injEq, Prod.mk.injEq] at h
              rw [← h.2]; exact hb _ _ _ _ hh
          · split at h
            · simp at h
            · rename_i hd r hh
              have := decodeHeader_rest_le _ _ _ hh
              split at h <;>
              · simp only [Except.ok.injEq, Prod.mk.injEq] at h
                rw [← h.2]; simp [List.length_drop]; omega

/-- The `while !payload.is_empty()` loop of `decode`.  `prev` is the previous key, `acc` the
    map built so far. -/
def decodePairs (payload : Bytes) (prev : Option Bytes) (acc : Content) : Except RlpErr Content :=
  if payload.isEmpty then .ok acc
  else
    match hk : decodeBytes payload false with
    | .error e => .error e
    | .ok (key, rest) =>
      if (match prev with
          | some p => !(bytesLt p key)      -- `prev >= key`
          | none => false) then .error (.custom .unsorted)
      else
        match hv : decodeValue key rest with
        | .error e => .error e
        | .ok (value, rest') => decodePairs rest' (some key) (Map.insert acc key value)
termination_by payload.length
decreasing_by
  have h1 := decodeBytes_rest_lt _ _ _ _ hk
  have h2 := decodeValue_rest_le _ _ _ _ hv
  omega

/-- Everything `decode` does with the payload of the outer list. -/
def decodeBody (S : Scheme) (payload : Bytes) : Except RlpErr Record :=
  if payload.isEmpty then .error (.custom .payloadEmpty)
  else
    match decodeBytes payload false with
    | .error e => .error e
    | .ok (signature, p1) =>
      if p1.isEmpty then .error (.custom .seqMissing)
      else
        match decodeUint 8 p1 with
        | .error e => .error e
        | .ok (seq, p2) =>
          match decodePairs p2 none [] with
          | .error e => .error e
          | .ok content =>
            match S.enrToPublic content with
            | .error e => .error e
            | .ok pk =>
              let enr : Record :=
                { seq := seq, nodeId := nodeIdOf S pk, content := content, sig := signature }
              match enr.verify S with
              | .ok true => .ok enr
              | _ => .error (.custom .invalidSignature)

/-- `<Enr<K> as Decodable>::decode(buf)`: the record and the buffer after it. -/
def decode (S : Scheme) (buf : Bytes) : Except RlpErr (Record × Bytes) :=
  match decodeHeader buf with
  | .error e => .error e
  | .ok (h, item) =>
    if buf.length - item.length + h.len > MAX_ENR_SIZE then .error (.custom .exceedsMaxSize)
    else
      match decodeBytes buf true with
      | .error e => .error e
      | .ok (payload, rest) =>
        match decodeBody S payload with
        | .error e => .error e
        | .ok r => .ok (r, rest)

end EnrVerif
