/-
  RLP framing exactly as `alloy-rlp 0.3.16` implements it (the parts `enr` uses):
  `Header::decode`, `Header::decode_bytes`, `Header::encode`, `[u8]::encode`, integer codecs,
  `Bytes`, `Ipv4Addr`/`Ipv6Addr`, `Vec<Bytes>`.

  Every decoder is a pure function `Bytes → Except RlpErr (α × Bytes)`: the second component is
  the buffer after the call (the `&mut &[u8]` of the Rust code).
-/
import EnrVerif.Model.Bytes

namespace EnrVerif

/-- `DecoderError::Custom` messages that can reach a caller of this crate. -/
inductive Custom
  | exceedsMaxSize | payloadEmpty | seqMissing | unsorted | unsupportedId | invalidSignature
  | unknownSignature | invalidPubkey | inputTooBig
  deriving DecidableEq, Repr

/-- `alloy_rlp::Error` -/
inductive RlpErr
  | overflow | leadingZero | inputTooShort | nonCanonicalSingleByte | nonCanonicalSize
  | unexpectedLength | unexpectedString | unexpectedList | listLengthMismatch
  | custom (c : Custom)
  deriving DecidableEq, Repr

structure Header where
  list : Bool
  len : Nat
  deriving DecidableEq, Repr

/-- The trailing `if buf.remaining() < payload_length` of `Header::decode`. -/
def hdrFinish (h : Header) (rest : Bytes) : Except RlpErr (Header × Bytes) :=
  if rest.length < h.len then .error .inputTooShort else .ok (h, rest)

/-- Long form (`0xB8..=0xBF | 0xF8..=0xFF`): `lol` length bytes follow. -/
def hdrLong (list : Bool) (lol : Nat) (rest : Bytes) : Except RlpErr (Header × Bytes) :=
  if rest.length < lol then .error .inputTooShort
  else
    let lb := rest.take lol
    let rest' := rest.drop lol
    match lb with
    | [] => .error .inputTooShort            -- unreachable: lol ≥ 1
    | b0 :: _ =>
      if b0.toNat = 0 then .error .leadingZero
      else
        let len := beToNat lb
        if len < 56 then .error .nonCanonicalSize
        else hdrFinish ⟨list, len⟩ rest'

/-- `Header::decode`.  Returns the header and the buffer positioned at the start of the payload
    (for a single byte below 0x80 the buffer is *not* advanced: the byte is its own payload). -/
def decodeHeader (buf : Bytes) : Except RlpErr (Header × Bytes) :=
  match buf with
  | [] => .error .inputTooShort
  | b :: rest =>
    if b.toNat < 0x80 then hdrFinish ⟨false, 1⟩ (b :: rest)
    else if b.toNat ≤ 0xB7 then
      if b.toNat - 0x80 = 1 then
        match rest with
        | [] => .error .inputTooShort
        | c :: _ =>
          if c.toNat < 0x80 then .error .nonCanonicalSingleByte
          else hdrFinish ⟨false, 1⟩ rest
      else hdrFinish ⟨false, b.toNat - 0x80⟩ rest
    else if b.toNat ≤ 0xBF then hdrLong false (b.toNat - 0xB7) rest
    else if b.toNat ≤ 0xF7 then hdrFinish ⟨true, b.toNat - 0xC0⟩ rest
    else hdrLong true (b.toNat - 0xF7) rest

/-- `Header::decode_bytes(buf, is_list)`: payload and the buffer after it. -/
def decodeBytes (buf : Bytes) (isList : Bool) : Except RlpErr (Bytes × Bytes) :=
  match decodeHeader buf with
  | .error e => .error e
  | .ok (h, rest) =>
    if h.list != isList then
      .error (if isList then .unexpectedString else .unexpectedList)
    else .ok (rest.take h.len, rest.drop h.len)

/-- `Header::encode` -/
def encodeHeader (list : Bool) (len : Nat) : Bytes :=
  if len < 56 then [UInt8.ofNat ((if list then 0xC0 else 0x80) + len)]
  else
    let lb := natToBe len
    UInt8.ofNat ((if list then 0xF7 else 0xB7) + lb.length) :: lb

/-- `<[u8] as Encodable>::encode` -/
def encBytes (bs : Bytes) : Bytes :=
  match bs with
  | [b] => if b.toNat < 0x80 then [b] else encodeHeader false 1 ++ [b]
  | _ => encodeHeader false bs.length ++ bs

/-- A list item with the given payload: header followed by the payload. -/
def encList (payload : Bytes) : Bytes := encodeHeader true payload.length ++ payload

/-- unsigned integer encoding (`u16`, `u64`, …): the minimal big-endian bytes as a string -/
def encUint (n : Nat) : Bytes := encBytes (natToBe n)

/-- `static_left_pad::<N>` followed by `from_be_bytes` -/
def leftPadToNat (maxBytes : Nat) (data : Bytes) : Except RlpErr Nat :=
  if data.length > maxBytes then .error .overflow
  else
    match data with
    | [] => .ok 0
    | b0 :: _ => if b0.toNat = 0 then .error .leadingZero else .ok (beToNat data)

/-- `<uN as Decodable>::decode` for an integer type of `maxBytes` bytes -/
def decodeUint (maxBytes : Nat) (buf : Bytes) : Except RlpErr (Nat × Bytes) :=
  match decodeBytes buf false with
  | .error e => .error e
  | .ok (bs, rest) =>
    match leftPadToNat maxBytes bs with
    | .error e => .error e
    | .ok n => .ok (n, rest)

/-- `Ipv4Addr::decode` (n = 4) / `Ipv6Addr::decode` (n = 16): a byte string of exactly `n` bytes -/
def decodeFixed (n : Nat) (buf : Bytes) : Except RlpErr (Bytes × Bytes) :=
  match decodeBytes buf false with
  | .error e => .error e
  | .ok (bs, rest) => if bs.length = n then .ok (bs, rest) else .error .unexpectedLength

theorem decodeHeader_rest_le (buf : Bytes) (h : Header) (rest : Bytes)
    (hd : decodeHeader buf = .ok (h, rest)) : rest.length ≤ buf.length ∧ h.len ≤ rest.length := by
  unfold decodeHeader at hd
  cases buf with
  | nil => simp at hd
  | cons b rest0 =>
    simp only at hd
    have fin : ∀ (hh : Header) (r : Bytes), hdrFinish hh r = .ok (h, rest) →
        r = rest ∧ h.len ≤ rest.length := by
      intro hh r hf
      unfold hdrFinish at hf
      split at hf
      · simp at hf
      · simp only [Except.ok.injEq, Prod.mk.injEq] at hf
        obtain ⟨rfl, rfl⟩ := hf
        exact ⟨rfl, by omega⟩
    have lng : ∀ (l : Bool) (lol : Nat) (r : Bytes), hdrLong l lol r = .ok (h, rest) →
        rest.length ≤ r.length ∧ h.len ≤ rest.length := by
      intro l lol r hl
      unfold hdrLong at hl
      split at hl
      · simp at hl
      · simp only at hl
        split at hl
        · simp at hl
        · split at hl
          · simp at hl
          · split at hl
            · simp at hl
            · obtain ⟨h1, h2⟩ := fin _ _ hl
              rw [← h1]
              exact ⟨by simp [List.length_drop], by rw [h1]; exact h2⟩
    split at hd
    · obtain ⟨h1, h2⟩ := fin _ _ hd
      rw [← h1]; exact ⟨Nat.le_refl _, by rw [h1]; exact h2⟩
    · split at hd
      · split at hd
        · split at hd
          · simp at hd
          · split at hd
            · simp at hd
            · obtain ⟨h1, h2⟩ := fin _ _ hd
              rw [← h1]; exact ⟨by simp, by rw [h1]; exact h2⟩
        · obtain ⟨h1, h2⟩ := fin _ _ hd
          rw [← h1]; exact ⟨by simp, by rw [h1]; exact h2⟩
      · split at hd
        · obtain ⟨h1, h2⟩ := lng _ _ _ hd
          exact ⟨by simp; omega, h2⟩
        · split at hd
          · obtain ⟨h1, h2⟩ := fin _ _ hd
            rw [← h1]; exact ⟨by simp, by rw [h1]; exact h2⟩
          · obtain ⟨h1, h2⟩ := lng _ _ _ hd
            exact ⟨by simp; omega, h2⟩

/-- Every successfully decoded item consumes at least one byte: the variant of every decode loop. -/
theorem decodeBytes_rest_lt (buf : Bytes) (isList : Bool) (p rest : Bytes)
    (hd : decodeBytes buf isList = .ok (p, rest)) : rest.length < buf.length := by
  unfold decodeBytes at hd
  split at hd
  · simp at hd
  · rename_i h r hh
    split at hd
    · simp at hd
    · simp only [Except.ok.injEq, Prod.mk.injEq] at hd
      obtain ⟨_, rfl⟩ := hd
      have := decodeHeader_rest_le buf h r hh
      -- either the header consumed a byte, or (single byte < 0x80) the payload has length 1
      unfold decodeHeader at hh
      cases buf with
      | nil => simp at hh
      | cons b rest0 =>
        simp only at hh
        split at hh
        · unfold hdrFinish at hh
          split at hh
          · simp at hh
          · simp only [Except.ok.injEq, Prod.mk.injEq] at hh
            obtain ⟨rfl, rfl⟩ := hh
            simp
        · have hlen : r.length ≤ rest0.length := by
            have key : ∀ (hh' : Header) (r' : Bytes), hdrFinish hh' r' = .ok (h, r) → r' = r := by
              intro hh' r' hf
              unfold hdrFinish at hf
              split at hf
              · simp at hf
              · simp only [Except.ok.injEq, Prod.mk.injEq] at hf
                exact hf.2
            have lng : ∀ (l : Bool) (lol : Nat) (r' : Bytes), hdrLong l lol r' = .ok (h, r) →
                r.length ≤ r'.length := by
              intro l lol r' hl
              unfold hdrLong at hl
              split at hl
              · simp at hl
              · simp only at hl
                split at hl
                · simp at hl
                · split at hl
                  · simp at hl
                  · split at hl
                    · simp at hl
                    · have := key _ _ hl
                      rw [← this]; simp [List.length_drop]
            split at hh
            · split at hh
              · split at hh
                · simp at hh
                · split at hh
                  · simp at hh
                  · rw [← key _ _ hh]; simp
              · rw [← key _ _ hh]; simp
            · split at hh
              · exact lng _ _ _ hh
              · split at hh
                · rw [← key _ _ hh]; simp
                · exact lng _ _ _ hh
          simp [List.length_drop]
          omega

end EnrVerif
