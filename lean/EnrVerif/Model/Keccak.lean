/-
  Keccak-256 (original Keccak padding `0x01 … 0x80`, as used by Ethereum; NOT SHA3-256).

  Independent re-implementation used as an oracle for the `sha3` crate.  State = 25 `UInt64` lanes in an
  `Array UInt64`, rate 136 bytes, capacity 512 bits, 24 rounds of Keccak-f[1600].
  Core Lean only; every function is total (range `for` loops / structural recursion).
-/
import EnrVerif.Model.Bytes

namespace EnrVerif

namespace Keccak

/-- Round constants of Keccak-f[1600]. -/
def roundConstants : Array UInt64 := #[
  0x0000000000000001, 0x0000000000008082, 0x800000000000808a, 0x8000000080008000,
  0x000000000000808b, 0x0000000080000001, 0x8000000080008081, 0x8000000000008009,
  0x000000000000008a, 0x0000000000000088, 0x0000000080008009, 0x000000008000000a,
  0x000000008000808b, 0x800000000000008b, 0x8000000000008089, 0x8000000000008003,
  0x8000000000008002, 0x8000000000000080, 0x000000000000800a, 0x800000008000000a,
  0x8000000080008081, 0x8000000000008080, 0x0000000080000001, 0x8000000080008008]

/-- Rotation offsets in the order the rho/pi walk visits the lanes. -/
def rotc : Array UInt64 := #[
  1, 3, 6, 10, 15, 21, 28, 36, 45, 55, 2, 14, 27, 41, 56, 8, 25, 43, 62, 18, 39, 61, 20, 44]

/-- Lane indices visited by the rho/pi walk. -/
def piln : Array Nat := #[
  10, 7, 11, 17, 18, 3, 5, 16, 8, 21, 24, 4, 15, 23, 19, 13, 12, 2, 20, 14, 22, 9, 6, 1]

@[inline] def rotl (x : UInt64) (k : UInt64) : UInt64 :=
  (x <<< k) ||| (x >>> (64 - k))

/-- One round of Keccak-f[1600] on a 25-lane state (`st[x + 5*y]`). -/
def round (st : Array UInt64) (rc : UInt64) : Array UInt64 := Id.run do
  let mut st := st
  -- theta
  let c0 := st[0]! ^^^ st[5]! ^^^ st[10]! ^^^ st[15]! ^^^ st[20]!
  let c1 := st[1]! ^^^ st[6]! ^^^ st[11]! ^^^ st[16]! ^^^ st[21]!
  let c2 := st[2]! ^^^ st[7]! ^^^ st[12]! ^^^ st[17]! ^^^ st[22]!
  let c3 := st[3]! ^^^ st[8]! ^^^ st[13]! ^^^ st[18]! ^^^ st[23]!
  let c4 := st[4]! ^^^ st[9]! ^^^ st[14]! ^^^ st[19]! ^^^ st[24]!
  let d0 := c4 ^^^ rotl c1 1
  let d1 := c0 ^^^ rotl c2 1
  let d2 := c1 ^^^ rotl c3 1
  let d3 := c2 ^^^ rotl c4 1
  let d4 := c3 ^^^ rotl c0 1
  for y in [0:5] do
    let j := 5 * y
    st := st.set! j (st[j]! ^^^ d0)
    st := st.set! (j + 1) (st[j + 1]! ^^^ d1)
    st := st.set! (j + 2) (st[j + 2]! ^^^ d2)
    st := st.set! (j + 3) (st[j + 3]! ^^^ d3)
    st := st.set! (j + 4) (st[j + 4]! ^^^ d4)
  -- rho and pi
  let mut t := st[1]!
  for i in [0:24] do
    let j := piln[i]!
    let tmp := st[j]!
    st := st.set! j (rotl t rotc[i]!)
    t := tmp
  -- chi
  for y in [0:5] do
    let j := 5 * y
    let b0 := st[j]!
    let b1 := st[j + 1]!
    let b2 := st[j + 2]!
    let b3 := st[j + 3]!
    let b4 := st[j + 4]!
    st := st.set! j (b0 ^^^ ((~~~ b1) &&& b2))
    st := st.set! (j + 1) (b1 ^^^ ((~~~ b2) &&& b3))
    st := st.set! (j + 2) (b2 ^^^ ((~~~ b3) &&& b4))
    st := st.set! (j + 3) (b3 ^^^ ((~~~ b4) &&& b0))
    st := st.set! (j + 4) (b4 ^^^ ((~~~ b0) &&& b1))
  -- iota
  st := st.set! 0 (st[0]! ^^^ rc)
  return st

/-- The permutation Keccak-f[1600]. -/
def keccakF (st : Array UInt64) : Array UInt64 := Id.run do
  let mut st := st
  for r in [0:24] do
    st := round st roundConstants[r]!
  return st

/-- Little-endian 64-bit lane read from `data` at byte offset `off`. -/
@[inline] def laneAt (data : Array UInt8) (off : Nat) : UInt64 :=
  (data[off]!).toUInt64
    ||| ((data[off + 1]!).toUInt64 <<< 8)
    ||| ((data[off + 2]!).toUInt64 <<< 16)
    ||| ((data[off + 3]!).toUInt64 <<< 24)
    ||| ((data[off + 4]!).toUInt64 <<< 32)
    ||| ((data[off + 5]!).toUInt64 <<< 40)
    ||| ((data[off + 6]!).toUInt64 <<< 48)
    ||| ((data[off + 7]!).toUInt64 <<< 56)

/-- The 8 bytes of a lane, little-endian. -/
def laneBytes (w : UInt64) : Bytes :=
  [w.toUInt8, (w >>> 8).toUInt8, (w >>> 16).toUInt8, (w >>> 24).toUInt8,
   (w >>> 32).toUInt8, (w >>> 40).toUInt8, (w >>> 48).toUInt8, (w >>> 56).toUInt8]

/-- Rate of Keccak-256 in bytes. -/
def rate : Nat := 136

/-- Keccak `pad10*1` with the original domain byte `0x01`: the result length is a positive multiple of
    `rate`. -/
def pad (m : Bytes) : Bytes :=
  let r := m.length % rate
  if r = rate - 1 then m ++ [0x81]
  else m ++ [0x01] ++ List.replicate (rate - 2 - r) 0x00 ++ [0x80]

end Keccak

open Keccak in
/-- Keccak-256 of a byte string (32-byte output). -/
def keccak256 (m : Bytes) : Bytes := Id.run do
  let data := (pad m).toArray
  let nblocks := data.size / rate
  let mut st : Array UInt64 := Array.replicate 25 0
  for b in [0:nblocks] do
    let base := b * rate
    for i in [0:17] do
      st := st.set! i (st[i]! ^^^ laneAt data (base + 8 * i))
    st := keccakF st
  return laneBytes st[0]! ++ laneBytes st[1]! ++ laneBytes st[2]! ++ laneBytes st[3]!

end EnrVerif
