/-
  The update methods of `Enr<K>` and `Builder::build`, following the Rust control flow.

  Every update has the same shape in the code: work on a clone (`new_enr`), change the content,
  store the signer's public key, (for some) check the size, bump or set the sequence number, check
  the identity scheme and that the record will be read back with the signer's key, ask the signer
  for a signature, set the node id, check the size, commit.  Everything up to the signing call is
  `prepare`; the signature is an oracle input (`none` = the signer failed); `step` finishes.
-/
import EnrVerif.Model.Enr

set_option linter.unusedVariables false

namespace EnrVerif

/-- A value handed to the generic `insert<T: Encodable>` / `add_value<T>`. -/
inductive Val
  | bytes (b : Bytes)              -- `&[u8]`, `Vec<u8>`, `Bytes`, `String`
  | uint (n : Nat)                 -- `u8 … u64`
  | strs (l : List Bytes)          -- `Vec<String>` / `Vec<Bytes>`
  deriving DecidableEq, Repr

def encStrs : List Bytes → Bytes
  | [] => []
  | s :: rest => encBytes s ++ encStrs rest

def Val.enc : Val → Bytes
  | .bytes b => encBytes b
  | .uint n => encUint n
  | .strs l => encList (encStrs l)

inductive Op (S : Scheme)
  | setSeq (seq : Nat)
  | insert (key : Bytes) (v : Val)
  | insertRaw (key raw : Bytes)
  | setIp (ip : Bytes)                         -- 4 or 16 bytes
  | setUdp4 (p : Nat) | setUdp6 (p : Nat) | setTcp4 (p : Nat) | setTcp6 (p : Nat)
  | removeUdp4 | removeUdp6 | removeTcp | removeTcp6
  | setClientInfo (name version : Bytes) (build : Option Bytes)
  | setUdpSocket (ip : Bytes) (port : Nat)
  | setTcpSocket (ip : Bytes) (port : Nat)
  | removeUdpSocket | removeUdp6Socket | removeTcpSocket | removeTcp6Socket
  | removeKey (key : Bytes)
  | removeInsert (rm : List Bytes) (ins : List (Bytes × Bytes))
  | setPublicKey (pk : S.PK)

/-- What an update returns on success. -/
inductive Ret
  | unit
  | prevRaw (v : Option Bytes)
  | prevIp (v : Option Bytes)
  | prevPort (v : Option Nat)
  | prevLists (removed inserted : List (Option Bytes))
  deriving DecidableEq, Repr

/-- `check_spec_reserved_keys` -/
def checkReserved (key value : Bytes) : Except EnrErr Unit :=
  let fin (rest : Bytes) : Except EnrErr Unit :=
    if rest.isEmpty then .ok () else .error (.invalidRlp .unexpectedLength)
  if isPortKey key then
    match decodeUint 2 value with
    | .error e => .error (.invalidRlp e)
    | .ok (_, rest) => fin rest
  else if key = kId then
    match decodeBytes value false with
    | .error e => .error (.invalidRlp e)
    | .ok (i, rest) => if i = vV4 then fin rest else .error .unsupportedId
  else if key = kIp then
    match decodeFixed 4 value with
    | .error e => .error (.invalidRlp e)
    | .ok (_, rest) => fin rest
  else if key = kIp6 then
    match decodeFixed 16 value with
    | .error e => .error (.invalidRlp e)
    | .ok (_, rest) => fin rest
  else if key = kSecp || key = kEd then
    match decodeBytes value false with
    | .error e => .error (.invalidRlp e)
    | .ok (_, rest) => fin rest
  else
    match decodeHeader value with
    | .error e => .error (.invalidRlp e)
    | .ok (h, rest) => fin (rest.drop h.len)

/-- the RLP value stored for a public key -/
def pubValue (S : Scheme) (pk : S.PK) : Bytes := encBytes (S.encodePub pk)

/-- "add the new public key" -/
def withPubkey (S : Scheme) (c : Content) (pk : S.PK) : Content :=
  Map.insert c (S.enrKey pk) (pubValue S pk)

/-- `check_signing_key` -/
def checkSigningKey (S : Scheme) (c : Content) (pk : S.PK) : Except EnrErr Unit :=
  match S.enrToPublic c with
  | .ok k =>
    if S.enrKey k = S.enrKey pk ∧ S.encodePub k = S.encodePub pk then .ok ()
    else .error .signingError
  | .error _ => .error .signingError

/-- The part of `compute_signature` that runs before the signer is called. -/
def preSign (S : Scheme) (r : Record) (pk : S.PK) : Except EnrErr Unit :=
  match r.id with
  | some i => if i = vV4 then checkSigningKey S r.content pk else .error .unsupportedId
  | none => .error .unsupportedId

/-- `seq.checked_add(1)` -/
def bumpSeq (r : Record) : Except EnrErr Record :=
  if r.seq + 1 < 2 ^ 64 then .ok { r with seq := r.seq + 1 } else .error .seqTooHigh

structure Prepared where
  enr : Record
  ret : Ret

/-- tail shared by the updates: optional first size check, bump, pre-sign checks -/
def finishPrepare (S : Scheme) (n : Record) (pk : S.PK) (sizeCheck : Bool) (ret : Ret) :
    Except EnrErr Prepared :=
  if sizeCheck && n.size > MAX_ENR_SIZE then .error .exceedsMaxSize
  else
    match bumpSeq n with
    | .error e => .error e
    | .ok n1 =>
      match preSign S n1 pk with
      | .error e => .error e
      | .ok () => .ok ⟨n1, ret⟩

/-- `insert_raw_rlp` up to the signing call -/
def prepInsertRaw (S : Scheme) (r : Record) (key raw : Bytes) (pk : S.PK) (chk : Bool)
    (mkRet : Option Bytes → Ret) : Except EnrErr Prepared :=
  match checkReserved key raw with
  | .error e => .error e
  | .ok () =>
    let prev := Map.lookup r.content key
    let c1 := Map.insert r.content key raw
    let n := { r with content := withPubkey S c1 pk }
    finishPrepare S n pk chk (mkRet prev)

/-- `remove_key` up to the signing call -/
def prepRemoveKey (S : Scheme) (r : Record) (key : Bytes) (pk : S.PK) : Except EnrErr Prepared :=
  let c1 := Map.erase r.content key
  let n := { r with content := withPubkey S c1 pk }
  finishPrepare S n pk false .unit

/-- the removal loop of `remove_insert` -/
def removeAll : Content → List Bytes → Content × List (Option Bytes)
  | c, [] => (c, [])
  | c, k :: ks =>
    let (c', out) := removeAll (Map.erase c k) ks
    (c', Map.lookup c k :: out)

/-- the insertion loop of `remove_insert` -/
def insertAll : Content → List (Bytes × Bytes) → Except EnrErr (Content × List (Option Bytes))
  | c, [] => .ok (c, [])
  | c, (k, value) :: rest =>
    if k = kId ∧ value ≠ vV4 then .error .unsupportedId
    else
      let v := encBytes value
      match checkReserved k v with
      | .error e => .error e
      | .ok () =>
        match insertAll (Map.insert c k v) rest with
        | .error e => .error e
        | .ok (c', out) => .ok (c', Map.lookup c k :: out)

/-- `remove_insert` up to the signing call -/
def prepRemoveInsert (S : Scheme) (r : Record) (rm : List Bytes) (ins : List (Bytes × Bytes))
    (pk : S.PK) (mkRet : List (Option Bytes) → List (Option Bytes) → Ret) : Except EnrErr Prepared :=
  let (c1, removed) := removeAll r.content rm
  match insertAll c1 ins with
  | .error e => .error e
  | .ok (c2, inserted) =>
    let n := { r with content := withPubkey S c2 pk }
    finishPrepare S n pk false (mkRet removed inserted)

/-- `set_socket` up to the signing call -/
def prepSetSocket (S : Scheme) (r : Record) (ip : Bytes) (port : Nat) (isTcp : Bool) (pk : S.PK)
    (chk : Bool) : Except EnrErr Prepared :=
  let c2 :=
    if ip.length = 4 then
      Map.insert (Map.insert r.content kIp (encBytes ip)) (if isTcp then kTcp else kUdp) (encUint port)
    else
      Map.insert (Map.insert r.content kIp6 (encBytes ip)) (if isTcp then kTcp6 else kUdp6) (encUint port)
  let n := { r with content := withPubkey S c2 pk }
  finishPrepare S n pk chk .unit

def prevPort (v : Option Bytes) : Ret :=
  .prevPort (match v with
    | none => none
    | some b => match decodeUint 2 b with
      | .ok (n, _) => some n
      | .error _ => none)

def prevIp (n : Nat) (v : Option Bytes) : Ret :=
  .prevIp (match v with
    | none => none
    | some b => match decodeFixed n b with
      | .ok (ip, _) => some ip
      | .error _ => none)

/-- Everything an update does before it asks the signer for a signature.  `chk = true` is the
    code as it is; `chk = false` skips the size check that `insert_raw_rlp` and `set_socket` make
    before signing (used to state what the result of an update *would be*). -/
def prepareG (S : Scheme) (r : Record) (op : Op S) (pk : S.PK) (chk : Bool) : Except EnrErr Prepared :=
  match op with
  | .setSeq seq =>
    let n := { r with seq := seq, content := withPubkey S r.content pk }
    match preSign S n pk with
    | .error e => .error e
    | .ok () => .ok ⟨n, .unit⟩
  | .insert key v => prepInsertRaw S r key v.enc pk chk .prevRaw
  | .insertRaw key raw => prepInsertRaw S r key raw pk chk .prevRaw
  | .setIp ip =>
    if ip.length = 4 then prepInsertRaw S r kIp (encBytes ip) pk chk (prevIp 4)
    else prepInsertRaw S r kIp6 (encBytes ip) pk chk (prevIp 16)
  | .setUdp4 p => prepInsertRaw S r kUdp (encUint p) pk chk prevPort
  | .setUdp6 p => prepInsertRaw S r kUdp6 (encUint p) pk chk prevPort
  | .setTcp4 p => prepInsertRaw S r kTcp (encUint p) pk chk prevPort
  | .setTcp6 p => prepInsertRaw S r kTcp6 (encUint p) pk chk prevPort
  | .removeUdp4 => prepRemoveKey S r kUdp pk
  | .removeUdp6 => prepRemoveKey S r kUdp6 pk
  | .removeTcp => prepRemoveKey S r kTcp pk
  | .removeTcp6 => prepRemoveKey S r kTcp6 pk
  | .setClientInfo name version build =>
    let l := match build with
      | none => [name, version]
      | some b => [name, version, b]
    prepInsertRaw S r kClient (Val.strs l).enc pk chk (fun _ => .unit)
  | .setUdpSocket ip port => prepSetSocket S r ip port false pk chk
  | .setTcpSocket ip port => prepSetSocket S r ip port true pk chk
  | .removeUdpSocket => prepRemoveInsert S r [kIp, kUdp] [] pk (fun _ _ => .unit)
  | .removeUdp6Socket => prepRemoveInsert S r [kIp6, kUdp6] [] pk (fun _ _ => .unit)
  | .removeTcpSocket => prepRemoveInsert S r [kIp, kTcp] [] pk (fun _ _ => .unit)
  | .removeTcp6Socket => prepRemoveInsert S r [kIp6, kTcp6] [] pk (fun _ _ => .unit)
  | .removeKey key => prepRemoveKey S r key pk
  | .removeInsert rm ins => prepRemoveInsert S r rm ins pk .prevLists
  | .setPublicKey pk' =>
    prepInsertRaw S r (S.enrKey pk') (encBytes (S.encodePub pk')) pk chk (fun _ => .unit)

/-- the code as it is -/
def prepare (S : Scheme) (r : Record) (op : Op S) (pk : S.PK) : Except EnrErr Prepared :=
  prepareG S r op pk true

/-- The payload the signer is asked to sign, when the update gets that far. -/
def signRequest (S : Scheme) (r : Record) (op : Op S) (pk : S.PK) : Option Bytes :=
  match prepare S r op pk with
  | .ok p => some p.enr.rlpContent
  | .error _ => none

/-- One update call.  `oracle` is the signer's answer (`none`: `sign_v4` returned an error); it is
    consulted only when `prepare` succeeds.  Returns the outcome and the record afterwards. -/
def step (S : Scheme) (r : Record) (op : Op S) (pk : S.PK) (oracle : Option Bytes) :
    Res Ret × Record :=
  match prepare S r op pk with
  | .error e => (.err e, r)
  | .ok p =>
    match oracle with
    | none => (.err .signingError, r)
    | some sig =>
      let n : Record := { p.enr with sig := sig, nodeId := nodeIdOf S pk }
      if n.size > MAX_ENR_SIZE then (.err .exceedsMaxSize, r) else (.ok p.ret, n)

/-! ### Builder -/

structure Builder where
  seq : Nat := 1
  content : Content := []

namespace Builder

/-- `add_value_rlp` -/
def addRaw (b : Builder) (key raw : Bytes) : Builder := { b with content := Map.insert b.content key raw }
def addValue (b : Builder) (key : Bytes) (v : Val) : Builder := b.addRaw key v.enc
def setSeq (b : Builder) (s : Nat) : Builder := { b with seq := s }

/-- the sanitising loop of `build` -/
def checkAll : Content → Except EnrErr Unit
  | [] => .ok ()
  | (k, v) :: rest =>
    match checkReserved k v with
    | .error e => .error e
    | .ok () => checkAll rest

/-- the builder's `rlp_content` -/
def rlpContent (b : Builder) : Bytes := encList (encUint b.seq ++ Record.pairsBytes b.content)

/-- `build` up to the signing call: the content that will be signed -/
def prepare (S : Scheme) (b : Builder) (pk : S.PK) : Except EnrErr Builder :=
  let c1 := Map.insert b.content kId (encBytes vV4)
  let c2 := withPubkey S c1 pk
  match checkAll c2 with
  | .error e => .error e
  | .ok () =>
    match checkSigningKey S c2 pk with
    | .error e => .error e
    | .ok () => .ok { b with content := c2 }

/-- `build(key)` -/
def build (S : Scheme) (b : Builder) (pk : S.PK) (oracle : Option Bytes) : Res Record :=
  match prepare S b pk with
  | .error e => .err e
  | .ok b' =>
    match oracle with
    | none => .err .signingError
    | some sig =>
      if b'.rlpContent.length + sig.length + 8 > MAX_ENR_SIZE then .err .exceedsMaxSize
      else .ok { seq := b'.seq, nodeId := nodeIdOf S pk, content := b'.content, sig := sig }

/-- What a call of `build` leaves behind in the builder whatever its outcome: the identity scheme
    and the signer's public key have been added to the builder's content (the builder can be used
    again). -/
def afterBuild (S : Scheme) (b : Builder) (pk : S.PK) : Builder :=
  { b with content := withPubkey S (Map.insert b.content kId (encBytes vV4)) pk }

end Builder
end EnrVerif
