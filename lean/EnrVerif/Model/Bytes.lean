/-
  Byte-string conventions shared by the whole model.

  Bytes and text are `List UInt8` everywhere (text = its UTF-8 bytes).  All comparisons on bytes
  are made on `b.toNat` so that `omega` can reason about them.
-/
namespace EnrVerif

abbrev Bytes := List UInt8

/-- Big-endian value of a byte string. -/
def beToNat : Bytes → Nat
  | bs => bs.foldl (fun acc b => acc * 256 + b.toNat) 0

/-- Minimal big-endian byte string of a natural (no leading zero; `0 ↦ []`). Fuel-free: structural on a
    helper with explicit accumulator. -/
def natToBeAux : Nat → Nat → Bytes → Bytes
  | 0, _, acc => acc
  | fuel + 1, n, acc => if n = 0 then acc else natToBeAux fuel (n / 256) (UInt8.ofNat (n % 256) :: acc)

def natToBe (n : Nat) : Bytes := natToBeAux (n + 1) n []

/-- Fixed-width big-endian encoding (`width` bytes, value taken modulo `256^width`). -/
def natToBeFixed : Nat → Nat → Bytes
  | 0, _ => []
  | w + 1, n => natToBeFixed w (n / 256) ++ [UInt8.ofNat (n % 256)]

/-- Lexicographic order on byte strings (Rust's `Ord for [u8]`). -/
def bytesLt : Bytes → Bytes → Bool
  | [], [] => false
  | [], _ :: _ => true
  | _ :: _, [] => false
  | a :: as, b :: bs => if a.toNat < b.toNat then true else if b.toNat < a.toNat then false else bytesLt as bs

def hexDigit (n : Nat) : UInt8 :=
  if n < 10 then UInt8.ofNat (48 + n) else UInt8.ofNat (87 + n)

/-- lower-case hex of a byte string, as ASCII bytes -/
def hexLower : Bytes → Bytes
  | [] => []
  | b :: bs => hexDigit (b.toNat / 16) :: hexDigit (b.toNat % 16) :: hexLower bs

def ascii (s : String) : Bytes := s.toUTF8.toList

end EnrVerif
