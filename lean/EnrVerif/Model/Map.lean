/-
  The record's key/value store: `BTreeMap<Vec<u8>, Bytes>` modelled as an association list kept
  strictly sorted by the lexicographic byte order.  `Sorted` is a separate predicate (not a subtype).
-/
import EnrVerif.Model.Bytes

namespace EnrVerif

abbrev Content := List (Bytes × Bytes)

namespace Map

def lookup : Content → Bytes → Option Bytes
  | [], _ => none
  | (k, v) :: rest, key => if k = key then some v else lookup rest key

/-- `BTreeMap::insert`: replace the value of an existing key, else insert at the sorted position. -/
def insert : Content → Bytes → Bytes → Content
  | [], key, val => [(key, val)]
  | (k, v) :: rest, key, val =>
    if k = key then (key, val) :: rest
    else if bytesLt key k then (key, val) :: (k, v) :: rest
    else (k, v) :: insert rest key val

/-- `BTreeMap::remove` (the map part; the returned previous value is `lookup`). -/
def erase : Content → Bytes → Content
  | [], _ => []
  | (k, v) :: rest, key => if k = key then rest else (k, v) :: erase rest key

def keys (c : Content) : List Bytes := c.map Prod.fst

/-- strictly increasing keys -/
def Sorted : Content → Prop
  | [] => True
  | [_] => True
  | (k1, _) :: (k2, v2) :: rest => bytesLt k1 k2 = true ∧ Sorted ((k2, v2) :: rest)

def sortedB : Content → Bool
  | [] => true
  | [_] => true
  | (k1, _) :: (k2, v2) :: rest => bytesLt k1 k2 && sortedB ((k2, v2) :: rest)

end Map
end EnrVerif
