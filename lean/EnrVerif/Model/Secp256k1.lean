/-
  secp256k1: public-key parsing (with the exact accept sets of `k256` and of libsecp256k1), ECDSA
  verification of a 64-byte compact `r ‖ s` signature over a prehash, and secret → public.

  Independent re-implementation used as an oracle for the crates `k256 0.13.4` (+ `ecdsa 0.16.9`,
  `elliptic-curve 0.13.8`, `sec1 0.7.3`) and `secp256k1 0.30.0` (libsecp256k1 via `secp256k1-sys 0.10.1`).
  Arithmetic is Jacobian coordinates over `Nat` reduced `% p`.  Core Lean only, all functions total.

  Facts read off the crate sources (see the comments at each definition):

  * public keys — both reject: wrong length, x ≥ p, y ≥ p, point not on curve, identity (`00`).
      - k256 additionally ACCEPTS tag `05` + 32 bytes ("compact", decoded as the even-y point) and
        rejects the hybrid tags `06`/`07`;
      - libsecp additionally ACCEPTS `06`/`07` + 64 bytes (hybrid; tag parity must match y) and rejects `05`.
  * signatures — identical accept sets: length 64, 0 < r < n, 0 < s ≤ n/2 (low-S enforced by both
    verifiers), standard ECDSA equation with the prehash reduced mod n.
-/
import EnrVerif.Model.Bytes
import EnrVerif.Model.Keccak

namespace EnrVerif.Secp

/-- Field prime `2^256 - 2^32 - 977`. -/
def p : Nat := 0xFFFFFFFFFFFFFFFFFFFFFFFFFFFFFFFFFFFFFFFFFFFFFFFFFFFFFFFEFFFFFC2F

/-- Group order. -/
def n : Nat := 0xFFFFFFFFFFFFFFFFFFFFFFFFFFFFFFFEBAAEDCE6AF48A03BBFD25E8CD0364141

def gx : Nat := 0x79BE667EF9DCBBAC55A06295CE870B07029BFCDB2DCE28D959F2815B16F81798
def gy : Nat := 0x483ADA7726A3C4655DA4FBFC0E1108A8FD17B448A68554199C47D08FFB10D4B8

/-- An affine, non-identity point (not necessarily on the curve; see `onCurve`). -/
structure Pt where
  x : Nat
  y : Nat
  deriving DecidableEq, Repr, BEq, Inhabited

/-- The generator. -/
def G : Pt := ⟨gx, gy⟩

/-! ### Modular arithmetic helpers -/

/-- Left-to-right binary exponentiation over the low `bits` bits of `e` (structural in `bits`). -/
def powModBits (b e m : Nat) : Nat → Nat → Nat
  | 0, acc => acc
  | i + 1, acc =>
    let sq := acc * acc % m
    powModBits b e m i (if e.testBit i then sq * b % m else sq)

/-- `b ^ e mod m` (for `m > 1`). -/
def powMod (b e m : Nat) : Nat := powModBits (b % m) e m (e.log2 + 1) (1 % m)

@[inline] def fadd (a b : Nat) : Nat := (a + b) % p
/-- `a - b mod p` for `b ≤ p` (all field values are kept reduced). -/
@[inline] def fsub (a b : Nat) : Nat := (a + p - b) % p
@[inline] def fmul (a b : Nat) : Nat := a * b % p
/-- Field inverse by Fermat (`0 ↦ 0`). -/
def finv (a : Nat) : Nat := powMod a (p - 2) p
/-- Candidate square root `a^((p+1)/4)` (`p ≡ 3 mod 4`); a root iff its square is `a`. -/
def fsqrtCandidate (a : Nat) : Nat := powMod a ((p + 1) / 4) p

/-- `y² = x³ + 7` with both coordinates reduced. -/
def onCurve (P : Pt) : Bool :=
  decide (P.x < p) && decide (P.y < p) && (fmul P.y P.y == fadd (fmul (fmul P.x P.x) P.x) 7)

/-! ### Jacobian arithmetic.  `(X, Y, Z)` stands for `(X/Z², Y/Z³)`; `Z = 0` is the identity. -/

structure Jac where
  x : Nat
  y : Nat
  z : Nat
  deriving Repr

def Jac.infinity : Jac := ⟨1, 1, 0⟩

def Jac.ofPt (P : Pt) : Jac := ⟨P.x, P.y, 1⟩

def Jac.isInfinity (P : Jac) : Bool := P.z == 0

/-- Point doubling (`a = 0`). -/
def Jac.double (P : Jac) : Jac :=
  if P.z = 0 ∨ P.y = 0 then Jac.infinity else
  let yy := fmul P.y P.y
  let s := fmul 4 (fmul P.x yy)
  let m := fmul 3 (fmul P.x P.x)
  let x3 := fsub (fmul m m) (fmul 2 s)
  let y3 := fsub (fmul m (fsub s x3)) (fmul 8 (fmul yy yy))
  let z3 := fmul 2 (fmul P.y P.z)
  ⟨x3, y3, z3⟩

/-- General addition, complete (handles identity, doubling and inverse inputs). -/
def Jac.add (P Q : Jac) : Jac :=
  if P.z = 0 then Q else
  if Q.z = 0 then P else
  let z1z1 := fmul P.z P.z
  let z2z2 := fmul Q.z Q.z
  let u1 := fmul P.x z2z2
  let u2 := fmul Q.x z1z1
  let s1 := fmul P.y (fmul Q.z z2z2)
  let s2 := fmul Q.y (fmul P.z z1z1)
  if u1 = u2 then
    if s1 = s2 then P.double else Jac.infinity
  else
    let h := fsub u2 u1
    let r := fsub s2 s1
    let hh := fmul h h
    let hhh := fmul h hh
    let v := fmul u1 hh
    let x3 := fsub (fsub (fmul r r) hhh) (fmul 2 v)
    let y3 := fsub (fmul r (fsub v x3)) (fmul s1 hhh)
    let z3 := fmul h (fmul P.z Q.z)
    ⟨x3, y3, z3⟩

/-- Mixed addition with an affine point (`Z₂ = 1`), complete. -/
def Jac.addPt (P : Jac) (Q : Pt) : Jac :=
  if P.z = 0 then Jac.ofPt Q else
  let z1z1 := fmul P.z P.z
  let u2 := fmul Q.x z1z1
  let s2 := fmul Q.y (fmul P.z z1z1)
  if P.x = u2 then
    if P.y = s2 then P.double else Jac.infinity
  else
    let h := fsub u2 P.x
    let r := fsub s2 P.y
    let hh := fmul h h
    let hhh := fmul h hh
    let v := fmul P.x hh
    let x3 := fsub (fsub (fmul r r) hhh) (fmul 2 v)
    let y3 := fsub (fmul r (fsub v x3)) (fmul P.y hhh)
    let z3 := fmul h P.z
    ⟨x3, y3, z3⟩

/-- Affine form; `none` for the identity. -/
def Jac.toPt (P : Jac) : Option Pt :=
  if P.z = 0 then none else
  let zi := finv P.z
  let zi2 := fmul zi zi
  some ⟨fmul P.x zi2, fmul P.y (fmul zi2 zi)⟩

/-- Double-and-add over the low `bits` bits of `k`, most significant first (structural in `bits`). -/
def mulBits (k : Nat) (P : Pt) : Nat → Jac → Jac
  | 0, acc => acc
  | i + 1, acc =>
    let d := acc.double
    mulBits k P i (if k.testBit i then d.addPt P else d)

/-- `k · P` in Jacobian form, for `k < 2^256`. -/
def scalarMulJac (k : Nat) (P : Pt) : Jac := mulBits k P 256 Jac.infinity

/-- `k · P`; `none` when the result is the identity. -/
def scalarMul (k : Nat) (P : Pt) : Option Pt := (scalarMulJac (k % n) P).toPt

/-- `d · G` for `0 < d < n`, `none` otherwise. -/
def scalarMulG (d : Nat) : Option Pt :=
  if d = 0 ∨ n ≤ d then none else (scalarMulJac d G).toPt

/-! ### Encodings -/

/-- SEC1 compressed encoding: `02`/`03` (y even/odd) followed by the 32-byte big-endian x. -/
def compress (P : Pt) : Bytes :=
  (if P.y % 2 = 0 then (0x02 : UInt8) else 0x03) :: natToBeFixed 32 P.x

/-- `x ‖ y`, both 32-byte big-endian (the 64-byte "uncompressed without tag" form). -/
def xy (P : Pt) : Bytes := natToBeFixed 32 P.x ++ natToBeFixed 32 P.y

/-- SEC1 uncompressed encoding `04 ‖ x ‖ y`. -/
def uncompressed (P : Pt) : Bytes := (0x04 : UInt8) :: xy P

/-- Decompression: the point with abscissa `x` whose ordinate has parity `odd`; `none` if `x ≥ p` or
    `x³ + 7` is not a square. -/
def liftX (x : Nat) (odd : Bool) : Option Pt :=
  if p ≤ x then none else
  let alpha := fadd (fmul (fmul x x) x) 7
  let beta := fsqrtCandidate alpha
  if fmul beta beta ≠ alpha then none else
  let y := if (beta % 2 == 1) == odd then beta else fsub 0 beta
  some ⟨x, y⟩

/-- Uncompressed coordinates: both `< p` and on the curve. -/
def fromXY (x y : Nat) : Option Pt :=
  if p ≤ x ∨ p ≤ y then none else
  if onCurve ⟨x, y⟩ then some ⟨x, y⟩ else none

/-- Exactly the inputs accepted by `k256::ecdsa::VerifyingKey::from_sec1_bytes`.

    `sec1::EncodedPoint::from_bytes` accepts tag `00` (length 1), `02`/`03`/`05` (length 33) and `04`
    (length 65) and nothing else; `k256::AffinePoint::from_encoded_point` then requires x (and y) `< p`
    (`FieldElement::from_bytes`), decompresses `02`/`03` by parity, decodes the "compact" tag `05` as the
    even-y point (`decompact` = `decompress(x, 0)`), checks the curve equation for `04`; finally
    `PublicKey::from_encoded_point` rejects the identity encoding. -/
def decodePubK256 (b : Bytes) : Option Pt :=
  match b with
  | [] => none
  | tag :: rest =>
    let t := tag.toNat
    if t = 2 ∨ t = 3 then
      if rest.length ≠ 32 then none else liftX (beToNat rest) (t = 3)
    else if t = 5 then
      if rest.length ≠ 32 then none else liftX (beToNat rest) false
    else if t = 4 then
      if rest.length ≠ 64 then none else fromXY (beToNat (rest.take 32)) (beToNat (rest.drop 32))
    else none

/-- Exactly the inputs accepted by `secp256k1::PublicKey::from_slice` (libsecp256k1
    `secp256k1_ec_pubkey_parse` → `secp256k1_eckey_pubkey_parse`): 33 bytes with tag `02`/`03`; 65 bytes
    with tag `04`, or the hybrid tags `06`/`07` whose parity must agree with y; coordinates `< p`
    (`fe_set_b32_limit`), point on the curve (`ge_set_xo_var` / `ge_is_valid_var`). -/
def decodePubLibsecp (b : Bytes) : Option Pt :=
  match b with
  | [] => none
  | tag :: rest =>
    let t := tag.toNat
    if rest.length = 32 then
      if t = 2 ∨ t = 3 then liftX (beToNat rest) (t = 3) else none
    else if rest.length = 64 then
      if t = 4 ∨ t = 6 ∨ t = 7 then
        let x := beToNat (rest.take 32)
        let y := beToNat (rest.drop 32)
        if (t = 6 ∧ y % 2 ≠ 0) ∨ (t = 7 ∧ y % 2 ≠ 1) then none else fromXY x y
      else none
    else none

/-! ### ECDSA -/

/-- Scalar inverse mod `n` by Fermat. -/
def ninv (a : Nat) : Nat := powMod a (n - 2) n

/-- The ECDSA equation proper, for `r`, `s` already range-checked:
    `R = (z/s)·G + (r/s)·P`, reject the identity, accept iff `R.x mod n = r`. -/
def ecdsaCore (P : Pt) (z r s : Nat) : Bool :=
  let w := ninv s
  let u1 := z % n * w % n
  let u2 := r * w % n
  match ((scalarMulJac u1 G).add (scalarMulJac u2 P)).toPt with
  | none => false
  | some R => R.x % n == r

/-- ECDSA verification of a 64-byte `r ‖ s` signature over a prehash, exactly as performed by
    `k256::ecdsa::Signature::try_from` + `VerifyingKey::verify_digest` and by
    `secp256k1::ecdsa::Signature::from_compact` + `Secp256k1::verify_ecdsa`:

    * length must be 64 (both parsers);
    * `r, s ∈ [1, n)` — k256 rejects all of these at parse (`Signature::from_scalars`); libsecp rejects
      `≥ n` at parse (`scalar_set_b32` overflow) and `= 0` in `secp256k1_ecdsa_sig_verify`;
    * high `s` (`s > n/2`) is rejected by both verifiers (k256 `VerifyPrimitive::verify_prehashed`:
      `sig.s().is_high()`; libsecp `secp256k1_ecdsa_verify`: `!scalar_is_high(&s)`);
    * the digest is interpreted big-endian and reduced mod `n` (`Scalar::reduce_bytes` /
      `scalar_set_b32(…, NULL)`); both callers always pass a 32-byte digest. -/
def ecdsaVerifyPrehash (P : Pt) (digest : Bytes) (sig : Bytes) : Bool :=
  if sig.length ≠ 64 then false else
  let r := beToNat (sig.take 32)
  let s := beToNat (sig.drop 32)
  if r = 0 ∨ n ≤ r ∨ s = 0 ∨ n ≤ s then false else
  if n / 2 < s then false else
  ecdsaCore P (beToNat digest) r s

/-- ENR "v4" verification: ECDSA over `keccak256 msg`. -/
def verifyV4 (P : Pt) (msg sig : Bytes) : Bool := ecdsaVerifyPrehash P (keccak256 msg) sig

/-- Public point of a 32-byte big-endian secret: `some (d·G)` iff `sk.length = 32 ∧ 0 < d < n`
    (what `secp256k1::SecretKey::from_slice` accepts; see `secretToPubK256` for k256's laxer length rule). -/
def secretToPub (sk : Bytes) : Option Pt :=
  if sk.length ≠ 32 then none else scalarMulG (beToNat sk)

/-- What `k256::ecdsa::SigningKey::from_slice` accepts: `elliptic_curve::SecretKey::from_slice` takes
    any length in `24 ..= 32` (shorter inputs are left-padded with zeros) and requires `0 < d < n`. -/
def secretToPubK256 (sk : Bytes) : Option Pt :=
  if sk.length < 24 ∨ 32 < sk.length then none else scalarMulG (beToNat sk)

end EnrVerif.Secp
