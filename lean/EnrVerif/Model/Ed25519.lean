/-
  Ed25519: public-key decoding, signature verification and secret → public, with exactly the accept set
  of `ed25519-dalek 2.2.0` (default features, i.e. WITHOUT `legacy_compatibility`) on top of
  `curve25519-dalek 4.1.3` and `ed25519 2.2.3`.

  Independent re-implementation used as an oracle.  Extended twisted-Edwards coordinates over `Nat`
  reduced `% q`, `q = 2^255 - 19`.  Core Lean only, all functions total.

  Facts read off the crate sources:

  * `VerifyingKey::try_from(&[u8])`: length must be 32, then `CompressedEdwardsY::decompress`:
      - bit 255 is the sign of x; the low 255 bits are y and are NOT required to be canonical
        (`FieldElement::from_bytes` masks bit 255 and the value is used mod q, so `y ∈ [q, 2^255)` is accepted
        and means `y - q`);
      - `x² = (y² - 1)/(d y² + 1)` must have a solution (`sqrt_ratio_i`); the even root is taken and negated
        when the sign bit is set — with NO rejection of "x = 0 with sign bit 1" (RFC 8032 would reject);
      - no small-order / weak-key check (`is_weak` exists but is not called; only `verify_strict` uses it);
      - the key remembers the ORIGINAL 32 bytes (`to_bytes`/`as_bytes` return them, and they — not the
        canonical re-encoding — are what gets hashed during verification).
  * `Signature::try_from(&[u8])` (`ed25519::Signature::from_slice`): length must be 64, nothing else.
  * `VerifyingKey::verify` (`Verifier` impl → `raw_verify`): `InternalSignature::try_from` requires
    `s < ℓ` (`Scalar::from_canonical_bytes`, which also forces bit 255 of s to be 0); R is NOT decompressed:
    `k = SHA-512(R ‖ A.bytes ‖ msg)` as a 512-bit little-endian integer reduced mod ℓ,
    `R' = [s]B + [k](-A)`, accept iff the canonical compression of `R'` equals the 32 signature bytes `R`
    byte for byte (so a non-canonical R never verifies; no cofactor multiplication).
  * `SigningKey::try_from(&[u8])`: length must be 32; public key = `[clamp(SHA-512(seed)[0..32])]B`.
-/
import EnrVerif.Model.Bytes
import EnrVerif.Model.Sha512

namespace EnrVerif.Ed

/-- Field prime `2^255 - 19`. -/
def q : Nat := 2 ^ 255 - 19

/-- Order of the base point, `2^252 + 27742317777372353535851937790883648493`. -/
def ℓ : Nat := 2 ^ 252 + 27742317777372353535851937790883648493

/-- Curve constant `d = -121665/121666`. -/
def d : Nat := 37095705934669439343138083508754565189542113879843219016388785533085940283555

/-- `sqrt(-1) = 2^((q-1)/4)`, the root used by curve25519-dalek (`SQRT_M1`). -/
def sqrtM1 : Nat := 19681161376707505956807079304988542015446066515923890162744021073123829784752

def bx : Nat := 15112221349535400772501151409588531511454012693041857206046113283949847762202
def by' : Nat := 46316835694926478169428394003475163141307993866256225615783033603165251855960

/-- An affine point (coordinates reduced mod `q`). -/
structure EdPt where
  x : Nat
  y : Nat
  deriving DecidableEq, Repr, BEq, Inhabited

/-- The base point. -/
def B : EdPt := ⟨bx, by'⟩

/-- A parsed public key: the original 32 bytes together with the decompressed point. -/
structure EdPub where
  bytes : Bytes
  pt : EdPt
  deriving DecidableEq, Repr, BEq, Inhabited

/-- What `VerifyingKey::to_bytes` returns: the bytes the key was parsed from. -/
def pubBytes (A : EdPub) : Bytes := A.bytes

/-! ### Field helpers -/

def powModBits (b e m : Nat) : Nat → Nat → Nat
  | 0, acc => acc
  | i + 1, acc =>
    let sq := acc * acc % m
    powModBits b e m i (if e.testBit i then sq * b % m else sq)

def powMod (b e m : Nat) : Nat := powModBits (b % m) e m (e.log2 + 1) (1 % m)

@[inline] def fadd (a b : Nat) : Nat := (a + b) % q
@[inline] def fsub (a b : Nat) : Nat := (a + q - b) % q
@[inline] def fmul (a b : Nat) : Nat := a * b % q
@[inline] def fneg (a : Nat) : Nat := (q - a) % q
def finv (a : Nat) : Nat := powMod a (q - 2) q

/-- `-x² + y² = 1 + d x² y²`. -/
def onCurve (P : EdPt) : Bool :=
  let xx := fmul P.x P.x
  let yy := fmul P.y P.y
  decide (P.x < q) && decide (P.y < q) && (fsub yy xx == fadd 1 (fmul d (fmul xx yy)))

/-- Little-endian value of a byte string. -/
def leToNat (b : Bytes) : Nat := beToNat b.reverse

/-- Fixed-width little-endian encoding. -/
def natToLeFixed (width v : Nat) : Bytes := (natToBeFixed width v).reverse

/-! ### Extended coordinates `(X : Y : Z : T)`, `x = X/Z`, `y = Y/Z`, `T = XY/Z` -/

structure Ext where
  x : Nat
  y : Nat
  z : Nat
  t : Nat
  deriving Repr

def Ext.zero : Ext := ⟨0, 1, 1, 0⟩

def Ext.ofPt (P : EdPt) : Ext := ⟨P.x, P.y, 1, fmul P.x P.y⟩

def Ext.neg (P : Ext) : Ext := ⟨fneg P.x, P.y, P.z, fneg P.t⟩

/-- Unified (complete) addition for `a = -1` (add-2008-hwcd-3). -/
def Ext.add (P Q : Ext) : Ext :=
  let a := fmul (fsub P.y P.x) (fsub Q.y Q.x)
  let b := fmul (fadd P.y P.x) (fadd Q.y Q.x)
  let c := fmul (fmul P.t (fmul 2 d)) Q.t
  let dd := fmul (fmul 2 P.z) Q.z
  let e := fsub b a
  let f := fsub dd c
  let g := fadd dd c
  let h := fadd b a
  ⟨fmul e f, fmul g h, fmul f g, fmul e h⟩

/-- Doubling (dbl-2008-hwcd, `a = -1`). -/
def Ext.double (P : Ext) : Ext :=
  let a := fmul P.x P.x
  let b := fmul P.y P.y
  let c := fmul 2 (fmul P.z P.z)
  let da := fneg a
  let xy := fadd P.x P.y
  let e := fsub (fsub (fmul xy xy) a) b
  let g := fadd da b
  let f := fsub g c
  let h := fsub da b
  ⟨fmul e f, fmul g h, fmul f g, fmul e h⟩

def Ext.toPt (P : Ext) : EdPt :=
  let zi := finv P.z
  ⟨fmul P.x zi, fmul P.y zi⟩

/-- Double-and-add over the low `bits` bits of `k`, most significant first. -/
def mulBits (k : Nat) (P : Ext) : Nat → Ext → Ext
  | 0, acc => acc
  | i + 1, acc =>
    let dbl := acc.double
    mulBits k P i (if k.testBit i then dbl.add P else dbl)

/-- `[k]P` for `k < 2^256`. -/
def scalarMul (k : Nat) (P : EdPt) : Ext := mulBits k (Ext.ofPt P) 256 Ext.zero

/-! ### Encoding / decoding -/

/-- Canonical 32-byte compression: little-endian y with the parity of x in bit 255. -/
def encodePt (P : EdPt) : Bytes :=
  natToLeFixed 32 (P.y % q + (P.x % q % 2) * 2 ^ 255)

/-- curve25519-dalek `FieldElement::sqrt_ratio_i (u, v)`: `some r` with `r` the even root of `u/v` when
    `u/v` is a square (incl. `u = 0`), `none` otherwise. -/
def sqrtRatio (u v : Nat) : Option Nat :=
  let v3 := fmul (fmul v v) v
  let v7 := fmul (fmul v3 v3) v
  let r := fmul (fmul u v3) (powMod (fmul u v7) ((q - 5) / 8) q)
  let check := fmul v (fmul r r)
  let r' := if check = u then some r
            else if check = fneg u then some (fmul sqrtM1 r)
            else none
  r'.map (fun r => if r % 2 = 1 then fneg r else r)

/-- `CompressedEdwardsY::decompress` on 32 bytes. -/
def decompress (b : Bytes) : Option EdPt :=
  let v := leToNat b
  let sign := v / 2 ^ 255 % 2
  let y := v % 2 ^ 255 % q          -- non-canonical y is accepted and reduced
  let yy := fmul y y
  let u := fsub yy 1
  let w := fadd (fmul d yy) 1
  match sqrtRatio u w with
  | none => none
  | some x => some ⟨if sign = 1 then fneg x else x, y⟩   -- `-0 = 0`: sign bit on x = 0 is tolerated

/-- Exactly what `ed25519_dalek::VerifyingKey::try_from(&[u8])` accepts. -/
def decodePub (b : Bytes) : Option EdPub :=
  if b.length ≠ 32 then none else
  (decompress b).map (fun P => ⟨b, P⟩)

/-! ### Verification -/

/-- The group equation, for an already range-checked `s`: recompute `R' = [s]B - [k]A` with
    `k = SHA-512(R ‖ A.bytes ‖ msg) mod ℓ` and compare its canonical compression with the `R` bytes. -/
def verifyCore (A : EdPub) (msg rBytes : Bytes) (s : Nat) : Bool :=
  let k := leToNat (sha512 (rBytes ++ A.bytes ++ msg)) % ℓ
  let sB := scalarMul s B
  let kA := scalarMul k A.pt
  let r' := (sB.add kA.neg).toPt
  (encodePt r').map UInt8.toNat == rBytes.map UInt8.toNat

/-- Exactly `ed25519_dalek::Signature::try_from(sig)` followed by the non-strict
    `Verifier::verify` of `VerifyingKey`. -/
def verify (A : EdPub) (msg sig : Bytes) : Bool :=
  if sig.length ≠ 64 then false else
  let s := leToNat (sig.drop 32)
  if ℓ ≤ s then false else
  verifyCore A msg (sig.take 32) s

/-! ### Secret keys -/

/-- RFC 8032 clamping of the low 32 bytes of the seed hash (as a little-endian integer):
    clear bits 0–2 and 255, set bit 254. -/
def clamp (a : Nat) : Nat := a % 2 ^ 254 / 8 * 8 + 2 ^ 254

/-- Public key bytes of a 32-byte seed (`SigningKey::try_from(&[u8])` then `verifying_key().to_bytes()`);
    `none` if the length is not 32. -/
def secretToPubBytes (sk : Bytes) : Option Bytes :=
  if sk.length ≠ 32 then none else
  let h := sha512 sk
  let a := clamp (leToNat (h.take 32))
  some (encodePt (scalarMul (a % ℓ) B).toPt)

/-- Public key of a 32-byte seed as a parsed key. -/
def secretToPub (sk : Bytes) : Option EdPub :=
  (secretToPubBytes sk).bind decodePub

end EnrVerif.Ed
