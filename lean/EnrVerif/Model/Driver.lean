/-
  Line-protocol driver: replays the traces written by the Rust harness on the model, compares the
  implementation's observations with the model's, and evaluates the property predicates on the
  implementation's observations.

  Output lines:
    DIFF ctx=<..> field=<..> model=<..> impl=<..>     model and implementation disagree
    PROP <Cxx> FAIL pred=<..> ctx=<..> <detail>       a property predicate fails on the implementation
    COV <class>                                       a coverage class that was hit (deduplicated by the caller)
    STAT <key> <n>
-/
import EnrVerif.Model.Schemes
import EnrVerif.Model.Mutators
import EnrVerif.Model.Spec
import EnrVerif.Model.Text
import EnrVerif.Model.NodeId
import EnrVerif.Model.Strings
import EnrVerif.Model.Json
import EnrVerif.Model.Utf8
import EnrVerif.Model.Monitor

set_option linter.unusedVariables false

namespace EnrVerif.Driver
open EnrVerif

/-! ### text helpers -/

def hexNib (c : Char) : Option Nat :=
  if '0' ≤ c ∧ c ≤ '9' then some (c.toNat - 48)
  else if 'a' ≤ c ∧ c ≤ 'f' then some (c.toNat - 87)
  else if 'A' ≤ c ∧ c ≤ 'F' then some (c.toNat - 55)
  else none

def unhexAux : List Char → Bytes → Option Bytes
  | [], acc => some acc.reverse
  | [_], _ => none
  | a :: b :: rest, acc =>
    match hexNib a, hexNib b with
    | some x, some y => unhexAux rest (UInt8.ofNat (x * 16 + y) :: acc)
    | _, _ => none

def unhex (s : String) : Bytes :=
  if s == "-" || s == "" then [] else (unhexAux s.toList []).getD []

def hexChar (n : Nat) : Char := Char.ofNat (if n < 10 then 48 + n else 87 + n)

def hex (b : Bytes) : String :=
  if b.isEmpty then "-" else
  String.ofList (b.foldr (fun x acc => hexChar (x.toNat / 16) :: hexChar (x.toNat % 16) :: acc) [])

abbrev Toks := List (String × String)

def parseToks (line : String) : String × Toks :=
  match (line.splitOn " ").filter (· ≠ "") with
  | [] => ("", [])
  | h :: rest =>
    (h, rest.filterMap fun t =>
      match t.splitOn "=" with
      | k :: v :: more => some (k, String.intercalate "=" (v :: more))
      | _ => none)

def tget (t : Toks) (k : String) : String :=
  match t.find? (·.1 == k) with
  | some (_, v) => v
  | none => "-"

def thas (t : Toks) (k : String) : Bool := (t.find? (·.1 == k)).isSome

def parsePairs (s : String) : Content :=
  if s == "-" || s == "" then [] else
  (s.splitOn ",").filterMap fun p =>
    match p.splitOn ":" with
    | [k, v] => some (unhex k, unhex v)
    | _ => none

def showPairs (c : Content) : String :=
  if c.isEmpty then "-" else String.intercalate "," (c.map fun (k, v) => s!"{hex k}:{hex v}")

def parseList (s : String) : List Bytes :=
  if s == "-" || s == "" then [] else (s.splitOn ",").map unhex

def optHex (o : Option Bytes) : String :=
  match o with
  | none => "none"
  | some b => hex b

def optNat (o : Option Nat) : String :=
  match o with
  | none => "none"
  | some n => toString n

def rlpErrStr : RlpErr → String
  | .overflow => "Overflow" | .leadingZero => "LeadingZero" | .inputTooShort => "InputTooShort"
  | .nonCanonicalSingleByte => "NonCanonicalSingleByte" | .nonCanonicalSize => "NonCanonicalSize"
  | .unexpectedLength => "UnexpectedLength" | .unexpectedString => "UnexpectedString"
  | .unexpectedList => "UnexpectedList" | .listLengthMismatch => "ListLengthMismatch"
  | .custom _ => "Custom"

def enrErrStr : EnrErr → String
  | .exceedsMaxSize => "ExceedsMaxSize" | .seqTooHigh => "SequenceNumberTooHigh"
  | .signingError => "SigningError" | .unsupportedId => "UnsupportedIdentityScheme"
  | .invalidRlp _ => "InvalidRlpData"

/-! ### state -/

structure Obs where
  seq : Nat
  nid : Bytes
  sig : Bytes
  pairs : Content
  enc : String      -- hex or "panic"
  size : String
  deriving Inhabited

def Obs.toRec (o : Obs) : Record := ⟨o.seq, o.nid, o.pairs, o.sig⟩

def parseObs (t : Toks) : Obs :=
  { seq := (tget t "seq").toNat?.getD 0, nid := unhex (tget t "nid"), sig := unhex (tget t "sig"),
    pairs := parsePairs (tget t "pairs"), enc := tget t "enc", size := tget t "size" }

structure St where
  out : Array String := #[]
  lineNo : Nat := 0
  ctx : String := ""
  scheme : String := ""
  fam : String := ""
  keys : Array Bytes := #[]          -- public keys of the case's signers
  cur : Option Obs := none
  slots : List (String × Obs) := []
  -- pending input line waiting for its `out` line
  pend : Option (String × Toks) := none
  pendOut : Option Toks := none
  before : Option Obs := none
  -- last decoded items per (scheme, item hex) for prefix-locality
  itemRes : List (String × String) := []
  -- results of the same buffer under the different key types
  group : List (String × String × Option Obs) := []
  groupBuf : String := ""
  groupExpectOpen : Bool := false
  nDiff : Nat := 0
  nProp : Nat := 0
  nLines : Nat := 0
  nChecks : Nat := 0
  nVerify : Nat := 0
  nInputs : Nat := 0
  -- the last signature verification performed (public key bytes, message, signature, verdict)
  lastVerify : Option (Bytes × Bytes × Bytes × Bool) := none

def St.emit (s : St) (l : String) : St := { s with out := s.out.push l }
def St.diff (s : St) (field model impl : String) : St :=
  { s.emit s!"DIFF ctx={s.ctx} line={s.lineNo} field={field} model={model} impl={impl}" with nDiff := s.nDiff + 1 }
def St.prop (s : St) (c pred detail : String) : St :=
  { s.emit s!"PROP {c} FAIL pred={pred} ctx={s.ctx} line={s.lineNo} {detail}" with nProp := s.nProp + 1 }
def St.cov (s : St) (cls : String) : St := s.emit s!"COV {cls}"
def St.chk (s : St) : St := { s with nChecks := s.nChecks + 1 }

def St.cmp (s : St) (field model impl : String) : St :=
  if model == impl then s.chk else (s.diff field model impl).chk

/-- verify through the one-entry cache kept in the state -/
def St.verifyCached (s : St) (S : Scheme) (toB : S.PK → Bytes) (pk : S.PK) (msg sig : Bytes) : St × Bool :=
  match s.lastVerify with
  | some (p, m, g, v) =>
    if p == toB pk && m == msg && g == sig then (s, v)
    else
      let v := S.verify pk msg sig
      ({ s with lastVerify := some (toB pk, msg, sig, v), nVerify := s.nVerify + 1 }, v)
  | none =>
    let v := S.verify pk msg sig
    ({ s with lastVerify := some (toB pk, msg, sig, v), nVerify := s.nVerify + 1 }, v)

/-- `S` with one verification result memoised -/
def memo (S : Scheme) [DecidableEq S.PK] (pk : S.PK) (msg sig : Bytes) (v : Bool) : Scheme :=
  { S with verify := fun p m g => if p = pk ∧ m = msg ∧ g = sig then v else S.verify p m g }

/-! ### property predicates on a record observed on the implementation -/

/-- all schemes of the driver use `Bytes` as public key -/
structure DS where
  name : String
  S : Scheme
  toB : S.PK → Bytes
  ofB : Bytes → S.PK
  deq : DecidableEq S.PK

def mkDS (name : String) : Option DS :=
  match name with
  | "k256" => some ⟨name, k256S, id, id, inferInstanceAs (DecidableEq Bytes)⟩
  | "libsecp" => some ⟨name, libsecpS, id, id, inferInstanceAs (DecidableEq Bytes)⟩
  | "ed" => some ⟨name, edS, id, id, inferInstanceAs (DecidableEq Bytes)⟩
  | "comb" => some ⟨name, combS, id, id, inferInstanceAs (DecidableEq Bytes)⟩
  | "toy" => some ⟨name, toyS, id, id, inferInstanceAs (DecidableEq Bytes)⟩
  | _ => none

/-- Checks every C05-style predicate on an observed record and compares the derived observations
    (encoding, size) with the model's.  Returns the state and the memoised scheme. -/
def checkRecord (d : DS) (s : St) (o : Obs) (what : String) : St × Scheme × Option (Bytes × Bool) :=
  let S := d.S
  let r := o.toRec
  let s := s.cmp s!"{what}.enc" (hex r.encode) o.enc
  let s := s.cmp s!"{what}.size" (toString r.size) o.size
  let s := if Monitor.sizeOk r then s.chk else s.prop "C09" "size_le_300" s!"size={r.size}"
  let s := if o.enc == "panic" || o.size == toString (o.enc.length / 2) then s.chk
    else s.prop "C09" "size_is_encoding_length" s!"size()={o.size} encoding={o.enc.length / 2}"
  match S.enrToPublic r.content with
  | .error _ => (s.prop "C05" "has_public_key" s!"pairs={showPairs r.content}", S, none)
  | .ok pk =>
    let (s, v) := s.verifyCached S d.toB pk r.rlpContent r.sig
    let s := if v then s.chk else s.prop "C05" "verifies_under_own_key" s!"sig={hex r.sig}"
    let s := if Monitor.idOk r then s.chk else s.prop "C05" "id_is_v4" ""
    let s := if Monitor.nodeIdOk S pk r then s.chk
      else s.prop "C10" "node_id_is_hash_of_key" s!"nid={hex r.nodeId} want={hex (nodeIdOf S pk)}"
    let S' := @memo S d.deq pk r.rlpContent r.sig v
    -- accepted again by the decoder, with identical fields
    let s := match Monitor.redecode S' r with
      | .identical => s.chk
      | .different => s.prop "C04" "redecode_identical" ""
      | .rejected e => s.prop "C05" "accepted_again_by_decoder" s!"err={rlpErrStr e}"
    (s, S', some (d.toB pk, v))

/-- memoise one verification for a scheme whose keys are `Bytes` -/
def memoB (d : DS) (pk msg sig : Bytes) (v : Bool) : Scheme :=
  @memo d.S d.deq (d.ofB pk) msg sig v

/-- `acc` line: every accessor against the model's accessor on the same record -/
def checkAcc (d : DS) (s : St) (o : Obs) (t : Toks) (mi : Option (Bytes × Bool)) : St :=
  let S := d.S
  let r := o.toRec
  let c (s : St) (k model : String) : St :=
    let impl := tget t k
    if impl == "panic" then (s.prop "C03" s!"no_panic_{k}" "").chk
    else if model == impl then s.chk
    else
      -- the model accessor *is* the statement "reports a value exactly when the raw RLP is the
      -- canonical encoding of such a value": a disagreement is a failure of that property
      let owner := if k == "text" || k == "disp" then "C12" else if k == "encs" then "C04"
        else if k == "pk" || k == "pkkey" || k == "nidpk" || k == "nidconv" then "C10"
        else if k == "rtseq" then "C07"
        else if k == "conv" || k == "dbg" then "C03" else "C14"
      let pred := if k == "encs" then "encoding_is_the_same_into_every_kind_of_sink"
        else if k == "disp" then "display_is_the_text_form_whatever_the_sink_did_before"
        else if k == "nidconv" then "every_conversion_to_a_node_id_gives_the_node_id"
        else if k == "rtseq" then "sequence_number_preserved_by_encoding_and_decoding"
        else s!"accessor_{k}_agrees_with_raw_content"
      (s.diff s!"acc.{k}" model impl).prop owner pred s!"want={model} got={impl} pairs={showPairs r.content}"
  let s := c s "id" (optHex r.idString)
  let s := c s "ip4" (optHex r.ip4)
  let s := c s "ip6" (optHex r.ip6)
  let s := c s "tcp4" (optNat r.tcp4)
  let s := c s "tcp6" (optNat r.tcp6)
  let s := c s "udp4" (optNat r.udp4)
  let s := c s "udp6" (optNat r.udp6)
  let sock (o : Option (Bytes × Nat)) : String :=
    match o with
    | none => "none"
    | some (i, p) => s!"{hex i}/{p}"
  let s := c s "udp4s" (sock r.udp4Socket)
  let s := c s "udp6s" (sock r.udp6Socket)
  let s := c s "tcp4s" (sock r.tcp4Socket)
  let s := c s "tcp6s" (sock r.tcp6Socket)
  let s := c s "udpr" (if r.isUdpReachable then "1" else "0")
  let s := c s "tcpr" (if r.isTcpReachable then "1" else "0")
  let cl := match r.clientInfoStrings with
    | none => "none"
    | some (a, b, x) => s!"{hex a};{hex b};{optHex x}"
  -- strings that are not well-formed UTF-8 are not "the canonical encoding of such a value": reporting
  -- nothing for them is as conformant as reporting the lossy conversion
  let illFormed := match r.clientInfo with
    | some (a, b, x) => !(utf8Valid a && utf8Valid b && (x.map utf8Valid).getD true)
    | none => false
  let s := if illFormed && tget t "client" == "none" then s.chk else c s "client" cl
  let s := match S.enrToPublic r.content with
    | .ok pk =>
      let s := c s "pk" (hex (S.encodePub pk))
      let s := c s "pkkey" (hex (S.enrKey pk))
      c s "nidpk" (hex (nodeIdOf S pk))
    | .error _ => c (c s "pk" "panic") "nidpk" "panic"
  -- verify: the model's answer was computed in checkRecord; here only panics and false matter
  let s := match tget t "verify" with
    | "1" => s.chk
    | "panic" => s.prop "C03" "no_panic_verify" ""
    | v => s.prop "C05" "verify_accessor_true" s!"verify={v}"
  -- get(): per key
  let getModel := String.intercalate "," ((r.content.map fun (k, _) =>
      s!"{hex k}:" ++ (match r.get k with
        | .ok v => optHex v
        | _ => "panic")) ++ [s!"{hex (ascii "absent!")}:none"])
  let s := if ((tget t "get").splitOn "panic").length > 1 then s.prop "C03" "no_panic_get" (tget t "get")
    else s.cmp "acc.get" getModel (tget t "get")
  -- get_decodable::<T> for u64, Bytes, String, Vec<Bytes> on every key
  let s := if !(thas t "gd") then s else
    let one (v : Bytes) : String :=
      let a := match decodeUint 8 v with
        | .ok (n, _) => toString n
        | .error _ => "e"
      let b := match decodeBytes v false with
        | .ok (x, _) => hex x
        | .error _ => "e"
      let cstr := match decodeBytes v false with
        | .ok (x, _) => if utf8Valid x then hex x else "e"
        | .error _ => "e"
      let dl := match decodeBytes v true with
        | .ok (p, _) =>
          (match Record.decodeBytesList p with
           | .ok l => "[" ++ String.intercalate ";" (l.map hex) ++ "]"
           | .error _ => "e")
        | .error _ => "e"
      s!"{a}/{b}/{cstr}/{dl}"
    let m := if r.content.isEmpty then "-" else
      String.intercalate "," (r.content.map fun (k, v) => s!"{hex k}:{one v}")
    c s "gd" m
  -- text forms
  let s := c s "text" (String.ofList ((r.toText).map fun b => Char.ofNat b.toNat))
  let s := c s "disp" "1"
  let s := if thas t "encs" then c s "encs" "1" else s
  let s := if thas t "nidconv" then c s "nidconv" "1" else s
  let s := if thas t "rtseq" then c s "rtseq" "1" else s
  let s := c s "dbg" "ok"
  let s := match tget t "json" with
    | "1" => s.chk
    | "panic" => s.prop "C03" "no_panic_json" ""
    | v => s.prop "C12" "json_is_quoted_text" v
  let rt (s : St) (k : String) : St :=
    match tget t k with
    | "1" => s.chk
    | "panic" => s.prop "C03" s!"no_panic_{k}" ""
    | v => s.prop "C04" s!"roundtrip_{k}" v
  let s := rt (rt (rt s "rtb") "rtt") "rtj"
  -- `Encodable::length` equals the encoding's length, and a `Vec` of the record encodes to the list of
  -- its encodings and decodes back
  let s := if !(thas t "rtl") then s else
    match tget t "rtl" with
    | "11" => s.chk
    | "panic" => s.prop "C03" "no_panic_rtl" ""
    | v => s.prop "C04" "length_and_list_embedding" s!"(length ok, list round trip ok)={v}"
  -- C11: the encoding under every built-in key type
  let s := if d.name == "toy" || !(thas t "xdec") then s else
    let enc := r.encode
    let one (n : String) : String :=
      match mkDS n with
      | none => "?"
      | some d2 =>
        let S2 := match mi with
          | some (pk, v) => memoB d2 pk r.rlpContent r.sig v
          | none => d2.S
        match decode S2 enc with
        | .ok (r2, rest) => if r2 == r && rest.isEmpty then "1" else "d"
        | .error _ => "0"
    let m := s!"k256:{one "k256"},libsecp:{one "libsecp"},ed:{one "ed"},comb:{one "comb"}"
    let impl := tget t "xdec"
    -- 65-byte SEC1 public keys are outside the property's quantifier: whether another key type
    -- takes such a record is left to the implementation
    let sec1Long := match pubEntry r.content kSecp with
      | .ok b => b.length == 65
      | .error _ => false
    let s := if (impl.splitOn "panic").length > 1 then s.prop "C03" "no_panic_cross_decode" impl
      else if sec1Long then s.chk else s.cmp "acc.xdec" m impl
    -- scheme-level expectations, independent of the model
    let isSecp := tget t "pkkey" == hex kSecp
    let want := if isSecp then "k256:1,libsecp:1,ed:0,comb:1"
      else if (Map.lookup r.content kSecp).isNone then "k256:0,libsecp:0,ed:1,comb:1" else impl
    if sec1Long || impl == want then s.chk else s.prop "C11" "backends_interchangeable_schemes_isolated" s!"xdec={impl} want={want}"
  c s "conv" "1"

/-! ### builder calls / ops -/

def applyCalls (d : DS) (keys : Array Bytes) (calls : String) (leftovers : Bool := true) : Builder :=
  if calls == "-" then {} else
  (calls.splitOn ";").foldl (fun b c =>
    match c.splitOn ":" with
    | ["build", i, _] =>
      -- an earlier `build` on the same builder (its result is dropped): id and key stay behind
      -- (`leftovers = false`: a builder whose `build` does not write into its own content)
      (match keys[i.toNat?.getD 0]? with
       | some pk => if leftovers then Builder.afterBuild d.S b (d.ofB pk) else b
       | none => b)
    | ["seq", n] => b.setSeq (n.toNat?.getD 0)
    | ["raw", k, v] => b.addRaw (unhex k) (unhex v)
    | ["enc", k, v] => b.addRaw (unhex k) (unhex v)
    | ["enr", k, v] => b.addRaw (unhex k) (unhex v)     -- the value is a record (`Enr: Encodable`)
    | ["enrs", k, v] => b.addRaw (unhex k) (unhex v)    -- a `Vec<Enr>`
    | ["bytes", k, v] => b.addValue (unhex k) (.bytes (unhex v))
    | ["uint", k, v] => b.addValue (unhex k) (.uint (v.toNat?.getD 0))
    | ["ip", v] => let ip := unhex v; b.addValue (if ip.length = 4 then kIp else kIp6) (.bytes ip)
    | ["ip4", v] => b.addValue kIp (.bytes (unhex v))
    | ["ip6", v] => b.addValue kIp6 (.bytes (unhex v))
    | ["tcp4", n] => b.addValue kTcp (.uint (n.toNat?.getD 0))
    | ["tcp6", n] => b.addValue kTcp6 (.uint (n.toNat?.getD 0))
    | ["udp4", n] => b.addValue kUdp (.uint (n.toNat?.getD 0))
    | ["udp6", n] => b.addValue kUdp6 (.uint (n.toNat?.getD 0))
    | ["client", a, v, x] =>
      b.addValue kClient (.strs (if x == "none" then [unhex a, unhex v] else [unhex a, unhex v, unhex x]))
    | _ => b) {}

def parseOp (d : DS) (t : Toks) (keys : Array Bytes) : Option (Op d.S) :=
  let g := tget t
  let n (k : String) : Nat := (g k).toNat?.getD 0
  match g "op" with
  | "set_seq" => some (.setSeq (n "seq"))
  | "insert" =>
    -- `insert<T>` stores whatever `T::encode` writes: for a hand-written `Encodable` that is an
    -- arbitrary byte string, i.e. `insert_raw_rlp` of those bytes
    if g "vt" == "rawenc" || g "vt" == "enr" || g "vt" == "enrs" then some (.insertRaw (unhex (g "key")) (unhex (g "val")))
    else if g "vt" == "phantom" then some (.insertRaw (unhex (g "key")) [])
    else
    let v : Val := match g "vt" with
      | "uint" => .uint (n "val")
      | "strs" => .strs (parseList (g "val"))
      | _ => .bytes (unhex (g "val"))
    some (.insert (unhex (g "key")) v)
  | "insert_raw" => some (.insertRaw (unhex (g "key")) (unhex (g "raw")))
  | "set_ip" => some (.setIp (unhex (g "ip")))
  | "set_udp4" => some (.setUdp4 (n "port"))
  | "set_udp6" => some (.setUdp6 (n "port"))
  | "set_tcp4" => some (.setTcp4 (n "port"))
  | "set_tcp6" => some (.setTcp6 (n "port"))
  | "remove_udp4" => some .removeUdp4
  | "remove_udp6" => some .removeUdp6
  | "remove_tcp" => some .removeTcp
  | "remove_tcp6" => some .removeTcp6
  | "set_client_info" =>
    some (.setClientInfo (unhex (g "name")) (unhex (g "ver"))
      (if g "build" == "none" then none else some (unhex (g "build"))))
  | "set_udp_socket" => some (.setUdpSocket (unhex (g "ip")) (n "port"))
  | "set_tcp_socket" => some (.setTcpSocket (unhex (g "ip")) (n "port"))
  | "remove_udp_socket" => some .removeUdpSocket
  | "remove_udp6_socket" => some .removeUdp6Socket
  | "remove_tcp_socket" => some .removeTcpSocket
  | "remove_tcp6_socket" => some .removeTcp6Socket
  | "remove_key" => some (.removeKey (unhex (g "key")))
  | "remove_insert" => some (.removeInsert (parseList (g "rm")) (parsePairs (g "ins")))
  | "set_public_key" =>
    match keys[n "pk"]? with
    | some pk => some (.setPublicKey (d.ofB pk))
    | none => none
  | _ => none

def retStr : Ret → String
  | .unit => "unit"
  | .prevRaw v => s!"raw:{optHex v}"
  | .prevIp v => s!"ip:{optHex v}"
  | .prevPort v => s!"port:{optNat v}"
  | .prevLists a b =>
    let f (l : List (Option Bytes)) := if l.isEmpty then "-" else String.intercalate "," (l.map optHex)
    s!"lists:{f a}/{f b}"

/-- (message, answer) pairs of a `signlog=` token -/
def parseSignlog (s : String) : List (Bytes × Option Bytes) :=
  if s == "-" || s == "" then [] else
  (s.splitOn ";").filterMap fun e =>
    match e.splitOn ":" with
    | [m, "fail"] => some (unhex m, none)
    | [m, g] => some (unhex m, some (unhex g))
    | _ => none

def resClass (res : String) : String :=
  if res == "ok" then "ok" else if res == "panic" then "panic" else "err"

def resKind (res : String) : String :=
  -- "err:<Kind>" or "err:<Kind>:<detail>"; the detail (an error message) may itself contain colons
  match res.splitOn ":" with
  | _ :: k :: _ => k
  | _ => res

/-! ### line handlers -/

def obsEq (a b : Obs) : Bool :=
  a.seq == b.seq && a.nid == b.nid && a.sig == b.sig && a.pairs == b.pairs && a.enc == b.enc

def cmpRec (s : St) (what : String) (m : Record) (o : Obs) : St :=
  let s := s.cmp s!"{what}.seq" (toString m.seq) (toString o.seq)
  let s := s.cmp s!"{what}.nid" (hex m.nodeId) (hex o.nid)
  let s := s.cmp s!"{what}.sig" (hex m.sig) (hex o.sig)
  s.cmp s!"{what}.pairs" (showPairs m.content) (showPairs o.pairs)

/-- a `dec` / `init kind=decode` input with its `out` (and `rec`) lines -/
def handleDec (d : DS) (s : St) (t : Toks) (o : Toks) (rec : Option Obs) (isInit : Bool) : St :=
  let S := d.S
  let buf := unhex (tget t "buf")
  let res := tget o "res"
  let tag := tget t "tag"
  let expect := tget t "expect"
  let s := if resClass res == "panic" then s.prop "C03" "decode_no_panic" s!"buf={hex buf}" else s
  -- several threads decoding the same bytes at once: all as the sequential decode
  let s := if !(thas o "par") then s else
    match (tget o "par").splitOn "/" with
    | [ok, panics, n] =>
      let s := if panics != "0" then s.prop "C03" "decode_no_panic" s!"concurrent buf={hex buf}" else s.chk
      if resClass res == "ok" && ok != n then
        s.prop "C02" "concurrent_decodes_agree_with_the_sequential_one" s!"accepted alone, concurrently {ok}/{n} buf={hex buf}"
      else if resClass res == "err" && ok != "0" then
        (s.prop "C02" "concurrent_decodes_agree_with_the_sequential_one" s!"rejected alone, concurrently accepted {ok}/{n} buf={hex buf}").prop "C01" "accepted_record_is_authentic" s!"concurrent buf={hex buf}"
      else s.chk
    | _ => s
  -- the same item in front of a very long suffix
  let s := if !(thas o "big") then s else
    match (tget o "big").splitOn "/" with
    | [k, n] => if k == n then s.chk else s.prop "C13" "same_outcome_with_a_huge_suffix" s!"{k}/{n} suffix lengths agree, buf={hex buf}"
    | _ => s
  -- the model's verdict; when the implementation accepted, memoise the one verification
  let (S', s) := match rec with
    | some ob =>
      match S.enrToPublic ob.pairs with
      | .ok pk =>
        let (s, v) := s.verifyCached S d.toB pk ob.toRec.rlpContent ob.sig
        let s := if v then s.chk else s.prop "C01" "accepted_record_is_authentic" s!"buf={hex buf}"
        (@memo S d.deq pk ob.toRec.rlpContent ob.sig v, s)
      | .error _ =>
        -- regions the properties leave open (65-byte SEC1 keys in any of their forms): the
        -- implementation may know a key the model does not
        if expect == "open" then (S, s.chk) else (S, s.prop "C01" "accepted_record_has_key" s!"buf={hex buf}")
    | none => (S, s)
  let m := decode S' buf
  let mcls := match m with
    | .ok _ => "ok"
    | .error _ => "err"
  let merr := match m with
    | .ok _ => "-"
    | .error e => rlpErrStr e
  let s := s.cov s!"dec/{d.name}/{tag}/{resClass res}/{merr}"
  -- (inputs in a region the properties leave open are decided by the implementation)
  let longKey := match m with
    | .ok (r, _) => (match pubEntry r.content kSecp with | .ok b => b.length == 65 | .error _ => false)
    | .error _ => false
  let s := if expect == "open" || longKey then s.chk else s.cmp "dec.res" mcls (resClass res)
  -- generator's expectation (independent of the model)
  let s := if isInit then s else
    if expect == "accept" && resClass res != "ok" then
      s.prop "C02" "wellformed_accepted" s!"tag={tag} res={res} buf={hex buf}"
    else if expect == "reject" && resClass res == "ok" then
      if tag.startsWith "t-" || tag.startsWith "s-t-" then
        (s.prop "C01" "tamper_rejected" s!"tag={tag} buf={hex buf}").prop "C02" "input_without_a_valid_signature_rejected" s!"tag={tag} buf={hex buf}"
      else s.prop "C02" "malformed_rejected" s!"tag={tag} buf={hex buf}"
    else s.chk
  match m, rec with
  | .ok (r, rest), some ob =>
    let s := cmpRec s "dec" r ob
    let used := (tget o "used").toNat?.getD 0
    let s := s.cmp "dec.used" (toString (buf.length - rest.length)) (toString used)
    -- C04: re-encoding reproduces the consumed bytes
    let s := if ob.enc == hex (buf.take used) then s.chk
      else s.prop "C04" "reencode_is_consumed_input" s!"buf={hex buf}"
    let s := if ob.size == toString used then s.chk else s.prop "C09" "size_is_encoding_length" ""
    let s := if used ≤ 300 then s.chk else s.prop "C09" "decoded_le_300" s!"used={used}"
    -- C10
    let s := match S.enrToPublic ob.pairs with
      | .ok pk => if ob.nid == nodeIdOf S pk then s.chk else s.prop "C10" "node_id_is_hash_of_key" s!"buf={hex buf}"
      | .error _ => s
    -- C13: advance by exactly the item's length
    let il := (tget t "itemlen").toNat?.getD buf.length
    if il < buf.length then
      if used == il then s.chk else s.prop "C13" "advance_is_item_length" s!"used={used} item={il}"
    else s
  | _, _ => s

/-- prefix-locality across lines: same (scheme, item) must give the same verdict whatever follows -/
def handlePrefix (s : St) (t : Toks) (o : Toks) (rec : Option Obs) : St :=
  let bufh := tget t "buf"
  let il := (tget t "itemlen").toNat?.getD (bufh.length / 2)
  let item := (bufh.take (2 * il)).toString
  let key := s!"{tget t "scheme"}/{item}"
  -- the outcome is acceptance with a record or rejection; which error a rejection reports is not
  -- part of it (the item alone and the item with a suffix may be refused for different reasons)
  let sig := resClass (tget o "res") ++ "/" ++ (match rec with
    | some ob => s!"{ob.seq}/{hex ob.nid}/{hex ob.sig}/{showPairs ob.pairs}"
    | none => "-")
  if 2 * il == bufh.length || bufh == "-" then
    { s with itemRes := (key, sig) :: s.itemRes.take 40 }
  else
    match s.itemRes.find? (·.1 == key) with
    | some (_, sg) =>
      if sg == sig then s.chk else s.prop "C13" "same_outcome_with_suffix" s!"item={item} alone={sg.take 40} with_suffix={sig.take 40}"
    | none => s

/-- results of one buffer under the different key types (C11) -/
def flushGroup (s : St) : St :=
  let g := s.group
  let find (n : String) := g.find? (·.1 == n)
  let sigOf (x : String × String × Option Obs) : String :=
    x.2.1 ++ (match x.2.2 with
      | some ob => s!"/{ob.seq}/{hex ob.nid}/{hex ob.sig}/{showPairs ob.pairs}"
      | none => "")
  let gbuf := s.groupBuf
  let s := { s with group := [], groupBuf := "" }
  if s.groupExpectOpen then s else
  let s := match find "k256", find "libsecp" with
    | some a, some b =>
      if sigOf a == sigOf b then s.chk else s.prop "C11" "k256_eq_libsecp" s!"buf={gbuf} k256={a.2.1} libsecp={b.2.1}"
    | _, _ => s
  let s := match find "k256", find "comb" with
    | some a, some c =>
      if a.2.1 == "ok" then
        (if sigOf a == sigOf c then s.chk else s.prop "C11" "comb_eq_k256_on_secp" s!"buf={gbuf}")
      else s
    | _, _ => s
  let s := match find "ed", find "comb", find "k256" with
    | some e, some c, some a =>
      let hasSecp := match e.2.2 with
        | some ob => (Map.lookup ob.pairs kSecp).isSome
        | none => false
      let s := if e.2.1 == "ok" && !hasSecp then
          (if sigOf e == sigOf c then s.chk else s.prop "C11" "comb_eq_ed_on_ed" s!"buf={gbuf}")
        else s
      if c.2.1 == "ok" && a.2.1 != "ok" && e.2.1 != "ok" then s.prop "C11" "comb_accepts_only_what_a_scheme_accepts" s!"buf={gbuf}"
      else s
    | _, _, _ => s
  -- isolation
  let s := match find "k256", find "ed" with
    | some a, some e =>
      if a.2.1 == "ok" && e.2.1 == "ok" then
        -- both accept only if the record carries both keys and both signatures verify: impossible with one signature
        s.prop "C11" "schemes_isolated" s!"buf={gbuf}"
      else s
    | _, _ => s
  s

def handleTxt (d : DS) (s : St) (t : Toks) (o : Toks) (rec : Option Obs) (json : Bool) : St :=
  let S := d.S
  let str := unhex (tget t "s")
  let res := tget o "res"
  let tag := tget t "tag"
  let expect := tget t "expect"
  let s := if res == "panic" then s.prop "C03" "parse_no_panic" s!"s={hex str}" else s
  let s := if res.startsWith "mixed" then
      s.prop "C12" "json_parsing_independent_of_how_the_string_is_handed_over" s!"routes(str,value,reader,escaped)={res} s={hex str}"
    else s
  let S' := match rec with
    | some ob =>
      match S.enrToPublic ob.pairs with
      | .ok pk => @memo S d.deq pk ob.toRec.rlpContent ob.sig (S.verify pk ob.toRec.rlpContent ob.sig)
      | .error _ => S
    | none => S
  -- JSON documents go through the model of serde_json's string layer
  let m := if json then parseJson S' (jsonQuote str) else parseText S' str
  let s := s.cov s!"txt/{d.name}/{tag}/{resClass res}/{if json then "json" else "text"}"
  let s := s.cmp "txt.res" (if m.isSome then "ok" else "err") (resClass res)
  let s := if expect == "accept" && resClass res != "ok" then s.prop "C12" "canonical_text_accepted" s!"tag={tag} s={hex str}"
    else if expect == "reject" && resClass res == "ok" then s.prop "C12" "noncanonical_text_rejected" s!"tag={tag} s={hex str}"
    else s.chk
  match m, rec with
  | some r, some ob =>
    let s := cmpRec s "txt" r ob
    -- the accepted text is the canonical one (or the same without prefix)
    if str == r.toText || str == b64enc r.encode then s.chk
    else s.prop "C12" "accepted_text_is_canonical" s!"s={hex str}"
  | _, _ => s

/-- an arbitrary JSON document handed to `serde_json::from_str::<Enr<K>>` -/
def handleJsonDoc (d : DS) (s : St) (t : Toks) (o : Toks) (rec : Option Obs) : St :=
  let S := d.S
  let doc := unhex (tget t "doc")
  let res := tget o "res"
  let tag := tget t "tag"
  let expect := tget t "expect"
  let s := if res == "panic" then s.prop "C03" "parse_no_panic" s!"doc={hex doc}" else s
  let S' := match rec with
    | some ob =>
      match S.enrToPublic ob.pairs with
      | .ok pk => @memo S d.deq pk ob.toRec.rlpContent ob.sig (S.verify pk ob.toRec.rlpContent ob.sig)
      | .error _ => S
    | none => S
  let m := parseJson S' doc
  let s := s.cov s!"jsondoc/{d.name}/{tag}/{resClass res}"
  let s := if (if m.isSome then "ok" else "err") == resClass res then s.chk
    else (s.diff "txt.jsondoc" (if m.isSome then "ok" else "err") (resClass res)).prop "C12" "json_document_accepted_iff_its_string_is_the_text" s!"tag={tag} doc={hex doc}"
  let s := if expect == "accept" && resClass res != "ok" then s.prop "C12" "json_spelling_of_the_text_accepted" s!"tag={tag} doc={hex doc}"
    else if expect == "reject" && resClass res == "ok" then s.prop "C12" "other_json_document_rejected" s!"tag={tag} doc={hex doc}"
    else s.chk
  match m, rec with
  | some r, some ob => cmpRec s "txt" r ob
  | _, _ => s

def handleMany (d : DS) (s : St) (t : Toks) (o : Toks) (recs : List Obs) (asList : Bool) : St :=
  let S := d.S
  let buf := unhex (tget t "buf")
  let lens := ((tget t "lens").splitOn ",").filterMap String.toNat?
  let res := tget o "res"
  let s := if res == "panic" then s.prop "C03" "decode_no_panic" "" else s
  let s := s.cov s!"many/{d.name}/{asList}/{resClass res}/{lens.length}"
  -- every record is valid and within the limit, so all must decode, one per item
  let s := if resClass res != "ok" then s.prop "C13" "stream_of_records_decodes" s!"res={res} n={lens.length}"
    else if (tget o "n").toNat?.getD 0 != lens.length then s.prop "C13" "stream_record_count" s!"n={tget o "n"}"
    else s.chk
  -- each observed record re-encodes to its slice
  let body := if asList then
      match decodeBytes buf true with
      | .ok (p, _) => p
      | .error _ => []
    else buf
  let rec go (s : St) (b : Bytes) (ls : List Nat) (rs : List Obs) (fuel : Nat) : St :=
    match fuel, ls, rs with
    | fuel + 1, l :: ls, r :: rs =>
      let s := if r.enc == hex (b.take l) then s.chk else s.prop "C13" "stream_record_is_its_slice" ""
      let s := match decode S (b.take l) with
        | .ok (m, _) => cmpRec s "many" m r
        | .error e => s.diff "many.res" "err" "ok"
      go s (b.drop l) ls rs fuel
    | _, _, _ => s
  go s body lens recs (lens.length + 1)

/-- one builder run of the model: outcome, record, the would-be size, the admissible error kinds -/
structure BuildModel where
  prepOk : Bool
  payload : Bytes
  res : String
  enr : Option Record
  exact : Option Record      -- the record if the size check were exact
  wouldBe : Option Nat
  adm : List String

def buildModel (d : DS) (b : Builder) (pk : d.S.PK) (oracle : Option Bytes) (signerFailed : Bool) : BuildModel :=
  let S := d.S
  let prep := Builder.prepare S b pk
  let m := Builder.build S b pk oracle
  let (mres, mrec) : String × Option Record := match m with
    | .ok r => ("ok", some r)
    | .err e => (s!"err:{enrErrStr e}", none)
    | .panic _ => ("panic", none)
  -- every cause on its own (C08: "when several causes apply, any of them")
  let c2 := withPubkey S (Map.insert b.content kId (encBytes vV4)) pk
  let valueErrs := c2.filterMap fun kv => match checkReserved kv.1 kv.2 with | .error e => some (enrErrStr e) | .ok _ => none
  let keyErr := match checkSigningKey S c2 pk with | .error e => [enrErrStr e] | .ok _ => []
  let sigLen := match oracle with | some sg => sg.length | none => 64
  let est := ({ seq := b.seq, nodeId := [], content := c2, sig := List.replicate sigLen 0 } : Record).size
  let sizeErr := if est + 8 > MAX_ENR_SIZE then ["ExceedsMaxSize"] else []
  let fault := if signerFailed then ["SigningError"] else []
  let exact : Option Record := match prep, oracle with
    | .ok b', some sg => some { seq := b'.seq, nodeId := nodeIdOf S pk, content := b'.content, sig := sg }
    | _, _ => none
  { prepOk := (match prep with | .ok _ => true | .error _ => false),
    payload := (match prep with | .ok b' => b'.rlpContent | .error _ => []),
    res := mres, enr := mrec, exact := exact, wouldBe := exact.map (·.size),
    adm := valueErrs ++ keyErr ++ sizeErr ++ fault }

/-- `init kind=build` -/
def handleBuild (d : DS) (s : St) (t : Toks) (o : Toks) (rec : Option Obs) : St :=
  let S := d.S
  let signer := (tget t "signer").toNat?.getD 0
  match s.keys[signer]? with
  | none => s
  | some pkb =>
    let pk := d.ofB pkb
    let log := parseSignlog (tget o "signlog")
    let res := tget o "res"
    let s := if res == "panic" then s.prop "C03" "build_no_panic" "" else s
    let oracle : Option Bytes := match log with
      | (_, a) :: _ => a
      | [] => none
    let failed := log.any (·.2.isNone)
    let mA := buildModel d (applyCalls d s.keys (tget t "calls")) pk oracle failed
    -- a builder used again after a `build`: the properties speak of "the builder's pairs plus id and
    -- the signer's key"; whether an earlier build leaves its id / key behind in the builder is not
    -- fixed, so the model without leftovers is as good as the one with
    let mB := buildModel d (applyCalls d s.keys (tget t "calls") false) pk oracle failed
    let agrees (m : BuildModel) : Bool :=
      match rec, m.enr with
      | some ob, some r => resClass res == "ok" && showPairs r.content == showPairs ob.pairs
      | none, none => resClass res != "ok"
      | _, _ => false
    let m := if agrees mA then mA else if agrees mB then mB else mA
    -- when the signer is asked, it is asked to sign the payload of the result
    let s := match m.prepOk, log with
      | true, (msg, _) :: _ => s.cmp "build.signreq" (hex m.payload) (hex msg)
      | false, (_, _) :: _ => s.diff "build.signreq" "none" "requested"
      | _, [] => s.chk
    -- SigOK: the signer's answer verifies
    let s := match m.prepOk, oracle with
      | true, some sg =>
        let (s, v) := s.verifyCached S d.toB pk m.payload sg
        if v then s.chk else s.prop "C05" "sigok_signer_answer_verifies" ""
      | _, _ => s
    let mres := if m.prepOk && log.isEmpty then "reaches-signer" else m.res
    let s := s.cov s!"build/{d.name}/{resKind res}"
    -- C09: "the builder refuses every result above 300 bytes and may additionally refuse results
    -- within 8 bytes of the limit, but nothing smaller": within that slack both answers are right
    let inSlack := match m.wouldBe with
      | some sz => sz ≤ 300 && sz + 8 > 300
      | none => false
    let slackOk := inSlack && ((resClass res == "ok" && resKind mres == "ExceedsMaxSize") ||
      (resKind res == "ExceedsMaxSize" && resClass mres == "ok"))
    -- an error of a kind among the causes that apply is no difference (C08)
    let refusedForCause := resClass res == "err" && resClass mres == "err" && m.adm.contains (resKind res)
    let s := if slackOk || refusedForCause then s.chk else s.cmp "build.res" (resKind mres) (resKind res)
    let s := if resClass res == "err" && !(m.adm.contains (resKind res)) && !slackOk && mres != "reaches-signer" then
        s.prop "C08" "error_kind_matches_a_cause" s!"op=build impl={resKind res} admissible={m.adm}"
      else s.chk
    let s := match m.wouldBe with
      | some sz =>
        if resClass res == "ok" && sz > 300 then s.prop "C09" "builder_refuses_above_300" s!"size={sz}"
        else if resKind res == "ExceedsMaxSize" && sz + 8 ≤ 300 && !(refusedForCause && resKind mres != "ExceedsMaxSize") then
          s.prop "C09" "builder_refuses_only_near_the_limit" s!"size={sz}"
        else s.chk
      | none =>
        if resKind res == "ExceedsMaxSize" && !(m.adm.contains "ExceedsMaxSize") && mres != "reaches-signer" then
          s.prop "C09" "builder_refusal_has_a_size_cause" s!"model={mres} impl={res}"
        else s
    -- C14: what a typed builder method stores reads back as the value set (the last call per key)
    let s := match rec with
      | some ob =>
        if resClass res != "ok" then s else
        let r := ob.toRec
        let calls := (tget t "calls").splitOn ";"
        let lastOf (name : String) : Option (List String) :=
          (calls.filterMap fun c => match c.splitOn ":" with
            | n :: rest => if n == name then some rest else none
            | [] => none).getLast?
        let port (name : String) (got : Option Nat) : Bool := match lastOf name with
          | some [n] => got == n.toNat?
          | _ => true
        let addr (name : String) (len : Nat) (got : Option Bytes) : Bool := match lastOf name with
          | some [v] => (unhex v).length != len || got == some (unhex v)
          | _ => true
        -- (a later generic call on the same key overrides a typed one: only builders made of typed
        --  calls are judged)
        let onlyTyped := calls.all fun c => match c.splitOn ":" with
          | n :: _ => ["seq", "ip4", "ip6", "tcp4", "tcp6", "udp4", "udp6", "-", ""].contains n
          | [] => true
        let good := port "tcp4" r.tcp4 && port "tcp6" r.tcp6 && port "udp4" r.udp4 && port "udp6" r.udp6 &&
          addr "ip4" 4 r.ip4 && addr "ip6" 16 r.ip6
        if !onlyTyped || good then s.chk else s.prop "C14" "builder_reads_back" s!"calls={tget t "calls"} pairs={showPairs ob.pairs}"
      | none => s
    -- the record: the model's, or (within the slack, implementation built it) the exactly checked one
    let mrec := if slackOk && resClass res == "ok" then m.exact else m.enr
    match mrec, rec with
    | some r, some ob =>
      let s := cmpRec s "build" r ob
      if showPairs r.content == showPairs ob.pairs then s
      else s.prop "C08" "built_pairs_are_builder_pairs_plus_id_and_key" s!"want={showPairs r.content} got={showPairs ob.pairs}"
    | _, _ => s

/-- The causes that apply besides an ill-typed value, evaluated as if the offending value were
    stored: the size of the result, the identity scheme and the signing-key precondition (an
    implementation may check these before it looks at the value). -/
def bypassCauses (S : Scheme) (r : Record) (op : Op S) (pk : S.PK) : List String :=
  let c' : Content := match op with
    | .insertRaw k raw => Map.insert r.content k raw
    | .insert k v => Map.insert r.content k v.enc
    | .removeInsert rm ins =>
      ins.foldl (fun c kv => Map.insert c kv.1 (encBytes kv.2)) (rm.foldl (fun c k => Map.erase c k) r.content)
    | _ => r.content
  let n : Record := { r with content := withPubkey S c' pk, seq := if r.seq + 1 < 2 ^ 64 then r.seq + 1 else r.seq }
  (if n.size > MAX_ENR_SIZE then ["ExceedsMaxSize"] else []) ++
    (match preSign S n pk with | .error e => [enrErrStr e] | .ok _ => [])

/-- every item of a list payload is a well-formed RLP item (recursively) -/
def itemsOk : Nat → Bytes → Bool
  | 0, _ => false
  | fuel + 1, b =>
    if b.isEmpty then true else
    match decodeHeader b with
    | .error _ => false
    | .ok (h, rest) =>
      (if h.list then itemsOk fuel (rest.take h.len) else true) && itemsOk fuel (rest.drop h.len)

/-- Error kinds an implementation may report in regions the properties leave open: a public-key
    entry handed in that is not the signer's own key (only "setting the public key to the signer's
    own key succeeds" is required), and a list value under an unknown key whose inner bytes are not
    well-formed items (C02: "inner bytes of list values under unknown keys" are excluded). -/
def openCauses (S : Scheme) (op : Op S) (pk : S.PK) : List String :=
  let isKeyName (k : Bytes) : Bool := k == kSecp || k == kEd
  let inner (raw : Bytes) : List String :=
    -- (values that could not fit into a record anyway are not looked into: the walk is quadratic
    --  in the nesting depth)
    if raw.length > 600 then [] else
    match decodeHeader raw with
    | .ok (h, rest) => if h.list && !(itemsOk (raw.length + 1) (rest.take h.len)) then ["InvalidRlpData"] else []
    | .error _ => []
  let foreign (k raw : Bytes) : List String :=
    if isKeyName k && !(k == S.enrKey pk && raw == pubValue S pk) then ["SigningError", "InvalidRlpData"] else []
  match op with
  | .insertRaw k raw => foreign k raw ++ inner raw
  | .insert k v => foreign k v.enc ++ inner v.enc
  | .removeInsert _ ins => (ins.map fun kv => foreign kv.1 (encBytes kv.2)).flatten
  | .setPublicKey p => if S.encodePub p == S.encodePub pk && S.enrKey p == S.enrKey pk then [] else ["SigningError", "InvalidRlpData"]
  | _ => []

/-- The error kinds an update may report (C08: "when several causes apply, any of them"): every
    cause is evaluated on its own, whatever the order in which the code checks them. -/
def admissibleErrs (d : DS) (r : Record) (op : Op d.S) (pk : d.S.PK) (oracle : Option Bytes)
    (signerCalled signerFailed : Bool) : List String :=
  let S := d.S
  let seqMax := if op.isSetSeq then [] else if r.seq + 1 < 2 ^ 64 then [] else ["SequenceNumberTooHigh"]
  -- a signing failure is a cause only when the signer was really asked and really failed
  let fault := if signerFailed then ["SigningError"] else []
  -- value errors of every pair / value handed in
  let valueErrs : List String := match op with
    | .insertRaw k raw => (match checkReserved k raw with | .error e => [enrErrStr e] | .ok _ => [])
    | .insert k v => (match checkReserved k v.enc with | .error e => [enrErrStr e] | .ok _ => [])
    | .removeInsert _ ins => ins.filterMap fun (k, v) =>
        if k = kId ∧ v ≠ vV4 then some "UnsupportedIdentityScheme"
        else match checkReserved k (encBytes v) with | .error e => some (enrErrStr e) | .ok _ => none
    | _ => []
  if !valueErrs.isEmpty then valueErrs ++ bypassCauses S r op pk ++ seqMax ++ fault ++ openCauses S op pk
  else
    -- evaluate every cause on its own: with and without the pre-sign size check, at the real
    -- sequence number and just below the maximum (same encoded length)
    let rLow : Record := if r.seq + 1 < 2 ^ 64 then r else { r with seq := r.seq - 1 }
    let errOf (x : Except EnrErr Prepared) : List String := match x with
      | .error e => [enrErrStr e]
      | .ok _ => []
    let pre := errOf (prepareG S r op pk false) ++ errOf (prepareG S r op pk true) ++
      errOf (prepareG S rLow op pk false) ++ errOf (prepareG S rLow op pk true)
    let final := match prepareG S rLow op pk false, oracle with
      | .ok p, some sg =>
        let n : Record := { p.enr with sig := sg, nodeId := nodeIdOf S pk }
        if signerCalled && n.size > MAX_ENR_SIZE then ["ExceedsMaxSize"] else []
      | _, _ => []
    -- the size of the result estimated before signing, with a signature as long as the present one
    -- (exact for the built-in key types): an implementation may refuse on that without asking the signer
    let estimate := match prepareG S rLow op pk false with
      | .ok p =>
        let n : Record := { p.enr with sig := r.sig, nodeId := nodeIdOf S pk }
        if n.size > MAX_ENR_SIZE then ["ExceedsMaxSize"] else []
      | .error _ => []
    pre ++ final ++ seqMax ++ fault ++ estimate ++ openCauses S op pk

/-- one `step` with its `out` and `rec` lines -/
def handleStep (d : DS) (s : St) (t : Toks) (o : Toks) (after : Obs) : St :=
  let S := d.S
  match s.before with
  | none => s
  | some before =>
    let signer := (tget t "signer").toNat?.getD 0
    let res := tget o "res"
    let opn := tget t "op"
    let s := if res == "panic" then s.prop "C03" s!"update_no_panic_{opn}" "" else s
    match s.keys[signer]?, parseOp d t s.keys with
    | some pkb, some op =>
      let pk := d.ofB pkb
      let r := before.toRec
      let log := parseSignlog (tget o "signlog")
      let req := signRequest S r op pk
      -- the payload of the result, whether or not a size check runs before signing
      let reqL : Option Bytes := match prepareG S r op pk false with
        | .ok p => some p.enr.rlpContent
        | .error _ => none
      -- when the signer is asked, it is asked to sign the payload of the result; WHETHER it is asked
      -- before a call is refused is not something the properties fix
      let s := match reqL, log with
        | some m', (m, _) :: _ => s.cmp "step.signreq" (hex m') (hex m)
        | none, (m, _) :: _ => s.diff "step.signreq" "none" "requested"
        | _, [] => s.chk
      let oracle : Option Bytes := match log with
        | (_, a) :: _ => a
        | [] => none
      -- (fail=2: the harness made the signer answer with a signature that does not verify; the
      --  premise SigOK is then deliberately broken and only the treatment of the call is looked at)
      let badSigner := tget t "fail" == "2"
      let s := match req, oracle with
        | some m, some sg =>
          if badSigner then s else
          let (s, v) := s.verifyCached S d.toB pk m sg
          if v then s.chk else s.prop "C05" "sigok_signer_answer_verifies" ""
        | _, _ => s
      -- several threads reading the one record at once
      let s := match tget o "shared" with
        | "panic" => s.prop "C03" "no_panic_when_threads_read_one_record" s!"op={opn}"
        | "differ" => (s.prop "C03" "threads_reading_one_record_see_the_same" s!"op={opn}").prop "C05" "verifies_under_own_key" s!"threads reading one record disagree, op={opn}"
        | _ => s.chk
      let (mo0, mr0) := step S r op pk oracle
      -- the same update without the size check that precedes signing (what matters is the result)
      let (moL, mrL) : Res Ret × Record := match prepareG S r op pk false, oracle with
        | .ok p, some sg =>
          let n : Record := { p.enr with sig := sg, nodeId := nodeIdOf S pk }
          if n.size > MAX_ENR_SIZE then (.err .exceedsMaxSize, r) else (.ok p.ret, n)
        | .ok _, none => (.err .signingError, r)
        | .error e, _ => (.err e, r)
      let isOk (x : Res Ret) : Bool := match x with | .ok _ => true | _ => false
      -- the implementation succeeded where only the early size check of the model refuses
      let useL := resClass res == "ok" && !(isOk mo0) && isOk moL
      let (mo, mr) := if useL then (moL, mrL) else (mo0, mr0)
      let mres := match mo with
        | .ok _ => "ok"
        | .err e => s!"err:{enrErrStr e}"
        | .panic _ => "panic"
      let role := if signer == 0 then "own" else if signer == 1 then "other" else "third"
      let s := s.cov s!"step/{d.name}/{opn}/{resKind res}/{role}/{tget t "fail"}"
      -- the model needs the signer's answer; if the implementation never asked the signer although
      -- the model's update reaches the signing call, the model's outcome is "reaches the signer"
      let mres := if req.isSome && log.isEmpty then "reaches-signer" else mres
      -- C08: the reported error kind matches one of the causes that apply; success only without a cause
      let adm := admissibleErrs d r op pk oracle (!log.isEmpty) (log.any (·.2.isNone))
      -- outcome: both succeed, or both fail with a kind among the causes that apply (the model's own
      -- kind is one of them: `C08_admissible_sound`); two different applicable kinds are no difference
      -- (a refusal for a cause that applies is no difference either when the model itself goes
      --  through: size estimated before signing, or a region the properties leave open; the record
      --  the model expects is then the unchanged one)
      let refusedForCause := resClass res == "err" && adm.contains (resKind res)
      let s := if refusedForCause then s.chk
        else s.cmp "step.res" (resKind mres) (resKind res)
      let (mo, mr) : Res Ret × Record := if refusedForCause && isOk mo then (.err .signingError, r) else (mo, mr)
      let s := if resClass res == "err" then
          (if adm.contains (resKind res) then s.chk
           else s.prop "C08" "error_kind_matches_a_cause" s!"op={opn} impl={resKind res} admissible={adm}")
        else if resClass res == "ok" && resClass mres == "err" && mres != "reaches-signer" then
          s.prop "C08" "call_with_a_failure_cause_is_refused" s!"op={opn} model={mres}"
        else s
      let s := match mo with
        | .ok ret =>
          if resClass res == "ok" then
            (if retStr ret == tget o "ret" then s.chk
             else (s.diff "step.ret" (retStr ret) (tget o "ret")).prop "C08" "returns_previous_values" s!"op={opn} want={retStr ret} got={tget o "ret"}")
          else s
        | _ => s
      let s := cmpRec s "step" mr after
      let s := if showPairs mr.content == showPairs after.pairs then s
        else s.prop "C08" "pairs_are_those_of_the_sorted_map_model" s!"op={opn} want={showPairs mr.content} got={showPairs after.pairs}"
      -- C06: failed update leaves the record untouched
      let s := if resClass res != "ok" then
          (if obsEq before after then s.chk else s.prop "C06" "failed_update_unchanged" s!"op={opn} res={res}")
        else s
      -- C07
      let s := if resClass res == "ok" then
          (if opn == "set_seq" then
            (if toString after.seq == tget t "seq" then s.chk else s.prop "C07" "set_seq_exact" s!"seq={after.seq}")
          else if after.seq == before.seq + 1 then s.chk
          else s.prop "C07" "seq_plus_one" s!"op={opn} before={before.seq} after={after.seq}")
        else s
      let s := if before.seq + 1 == 2 ^ 64 && opn != "set_seq" && resClass res == "ok" then
          s.prop "C07" "no_wrap_at_max" s!"op={opn}"
        else s
      -- C09: refusal for size exactly when the model's rule says so
      -- (exactness is required of the built-in key types with their 64-byte signatures; for a scheme
      --  with variable-length signatures only the upper bound, which `checkRecord` enforces)
      -- (another applicable cause may be reported in place of the size, and the size in place of
      --  another applicable cause: C08 "when several causes apply, any of them")
      let s := if d.name != "toy" && (resKind res == "ExceedsMaxSize" || resKind mres == "ExceedsMaxSize") then
          (if resKind res == resKind mres then s.chk
           else if resClass res == "err" && resClass mres == "err" && adm.contains (resKind res) then s.chk
           else s.prop "C09" "refusal_matches_size_rule" s!"op={opn} model={mres} impl={res}")
        else s
      -- C14: what a typed setter stored reads back as the value set
      let s := if resClass res == "ok" then
          (let a := after.toRec
           let n (k : String) : Nat := (tget t k).toNat?.getD 0
           let ipb := unhex (tget t "ip")
           let good : Bool := match opn with
             | "set_tcp4" => a.tcp4 == some (n "port")
             | "set_tcp6" => a.tcp6 == some (n "port")
             | "set_udp4" => a.udp4 == some (n "port")
             | "set_udp6" => a.udp6 == some (n "port")
             | "set_ip" => if ipb.length == 4 then a.ip4 == some ipb else a.ip6 == some ipb
             | "set_udp_socket" =>
               if ipb.length == 4 then a.udp4Socket == some (ipb, n "port") else a.udp6Socket == some (ipb, n "port")
             | "set_tcp_socket" =>
               if ipb.length == 4 then a.tcp4Socket == some (ipb, n "port") else a.tcp6Socket == some (ipb, n "port")
             | "set_client_info" =>
               a.clientInfo == some (unhex (tget t "name"), unhex (tget t "ver"),
                 if tget t "build" == "none" then none else some (unhex (tget t "build")))
             | _ => true
           if good then s.chk else s.prop "C14" "setter_reads_back" s!"op={opn} pairs={showPairs after.pairs}")
        else s
      -- C05 re-key: afterwards the public key is the signer's
      let s := if resClass res == "ok" then
          (match S.enrToPublic after.pairs with
          | .ok k => if d.toB k == pkb then s.chk else s.prop "C05" "rekeyed_to_signer" s!"op={opn}"
          | .error _ => s)
        else s
      s
    | _, _ => s

def handleCmp (s : St) (t : Toks) (o : Toks) (other : Obs) : St :=
  match s.cur with
  | none => s
  | some cur =>
    let a := cur.toRec
    let b := other.toRec
    let bit (x : Bool) := if x then "1" else "0"
    if thas o "panic" then s.prop "C03" "compare_no_panic" "" else
    let s := s.cov s!"cmp/{tget o "eq"}{tget o "heq"}{tget o "cc"}{tget o "enceq"}{tget o "pairseq"}"
    let s := s.cmp "cmp.eq" (bit (a.eqv b)) (tget o "eq")
    let s := s.cmp "cmp.cc" (bit (a.compareContent b)) (tget o "cc")
    let s := s.cmp "cmp.enceq" (bit (a.encode == b.encode)) (tget o "enceq")
    let s := s.cmp "cmp.pairseq" (bit (a.content == b.content)) (tget o "pairseq")
    let eq := tget o "eq" == "1"
    let s := if tget o "eq" == tget o "eqr" then s.chk else s.prop "C15" "eq_symmetric" ""
    let s := if thas o "ne" && tget o "ne" == tget o "eq" then s.prop "C15" "ne_is_the_negation_of_eq" "" else s.chk
    let s := if tget o "cc" == tget o "ccr" then s.chk else s.prop "C15" "compare_content_symmetric" ""
    let s := if eq && tget o "heq" != "1" then s.prop "C15" "eq_implies_hash_eq" "" else s.chk
    let s := if eq && tget o "pairseq" != "1" then s.prop "C15" "eq_implies_same_pairs" "" else s.chk
    let s := if eq && tget o "enceq" != "1" then s.prop "C15" "eq_implies_same_encoding" "" else s.chk
    let s := if (cur.seq != other.seq || cur.sig != other.sig || cur.nid != other.nid) && eq then
        s.prop "C15" "differs_on_seq_key_or_sig" "" else s.chk
    let same := cur.seq == other.seq && cur.pairs == other.pairs
    let s := if (tget o "cc" == "1") == same then s.chk else s.prop "C15" "compare_content_iff_same_seq_and_pairs" s!"cc={tget o "cc"}"
    s

/-! ### records accepted by deserialisers other than serde_json's -/

/-- `alt` line: a deserialiser (byte string, byte sequence, string, wrapped; human-readable or not)
    handed the bytes `in` (or a text made from them) to the record type.  Acceptance is not
    required on any route; an accepted record must be authentic (C01) and well-formed (C02), and
    must be the record the plain decoder / text parser reads from the same data. -/
def handleAlt (s : St) (t : Toks) : St :=
  let route := tget t "route"
  if route == "all" then
    let s := s.cov s!"alt/{tget t "scheme"}/tried{tget t "tried"}/ok{tget t "ok"}"
    if tget t "panics" != "0" then s.prop "C03" "deserialise_no_panic" s!"in={tget t "in"}" else s.chk
  else
  match mkDS (tget t "scheme") with
  | none => s
  | some d =>
    let S := d.S
    let ob := parseObs t
    let r := ob.toRec
    let inp := unhex (tget t "in")
    let s := s.cov s!"alt/{d.name}/{route}/hr{tget t "hr"}/ok"
    match S.enrToPublic r.content with
    | .error _ => (s.prop "C01" "accepted_record_has_key" s!"route={route} in={hex inp}")
    | .ok pk =>
      let (s, v) := s.verifyCached S d.toB pk r.rlpContent r.sig
      let s := if v then s.chk
        else (s.prop "C01" "accepted_record_is_authentic" s!"route={route} hr={tget t "hr"} in={hex inp}").prop "C02" "input_without_a_valid_signature_rejected" s!"route={route} in={hex inp}"
      let S' := @memo S d.deq pk r.rlpContent r.sig v
      -- the record must be readable again, and it must be what the data says
      let s := match decode S' r.encode with
        | .ok (r2, rest) => if r2 == r && rest.isEmpty then s.chk else s.prop "C04" "redecode_identical" s!"route={route}"
        | .error e => s.prop "C02" "accepted_record_is_wellformed" s!"route={route} err={rlpErrStr e} in={hex inp}"
      let fromBytes := match decode S' inp with
        | .ok (r2, rest) => rest.isEmpty && r2 == r
        | .error _ => false
      let fromText := match parseText S' inp with
        | some r2 => r2 == r
        | none => false
      if fromBytes || fromText then s.chk
      else s.prop "C01" "accepted_record_is_the_one_in_the_input" s!"route={route} hr={tget t "hr"} in={hex inp}"

/-! ### NodeId / CombinedKey lines -/

def handleNid (s : St) (t : Toks) : St :=
  let op := tget t "op"
  let inp := unhex (tget t "in")
  let out := tget t "out"
  let s := s.cov s!"nid/{op}/{if out == "err" then "err" else if out == "panic" then "panic" else "ok"}/{min inp.length 70}"
  let s := if out == "panic" then s.prop "C03" s!"nodeid_no_panic_{op}" s!"in={hex inp}" else s
  match op with
  | "parse" =>
    let m := match NodeId.parse inp with
      | some id => hex id.raw
      | none => "err"
    let s := s.cmp "nid.parse" m out
    if out != "err" && out != "panic" && inp.length != 32 then s.prop "C16" "parse_only_32_bytes" s!"len={inp.length}" else s.chk
  | "new" =>
    -- raw / as_ref / From / PartialEq all return the 32 bytes
    let s := s.cmp "nid.new" (hex inp) out
    let s := s.cmp "nid.conv" "1" (tget t "conv")
    if out == hex inp && tget t "conv" == "1" then s.chk else s.prop "C16" "accessors_return_the_32_bytes" s!"in={hex inp} out={out}"
  | "ser" =>
    let s := s.cmp "nid.ser" (hex ([34] ++ (NodeId.ser ⟨inp⟩) ++ [34])) out
    let o := unhex out
    let digits := (o.drop 3).take 64
    if o.length == 68 && o.take 3 == [34, 48, 120] && o.drop 67 == [34] && digits.all (fun c => isLowerHexChar c)
        && packHex digits == inp then s.chk
    else s.prop "C16" "json_form_is_0x_and_64_lowercase_hex" s!"out={out}"
  | "deser" =>
    let m := match (jsonUnquote (jsonQuote inp)).bind NodeId.deser with
      | some id => hex id.raw
      | none => "err"
    let s := s.cmp "nid.deser" m out
    let s := if thas t "routes" && tget t "routes" != "1" then
        s.prop "C16" "deser_independent_of_the_json_route" s!"in={hex inp} out={out}" else s.chk
    -- accepted exactly when, after at most one leading "0x", 64 hex digits remain
    let body := if inp.take 2 == [48, 120] then inp.drop 2 else inp
    let good := body.length == 64 && body.all (fun c => isHexChar c)
    if out == "panic" then s
    else if good && out == "err" then s.prop "C16" "deser_accepts_64_hex_digits" s!"in={hex inp}"
    else if !good && out != "err" then s.prop "C16" "deser_accepts_only_64_hex_digits" s!"in={hex inp}"
    else if good && out != hex (packHex body) then s.prop "C16" "deser_yields_the_digits_value" s!"in={hex inp} out={out}"
    else s.chk
  | "deser_bytes" | "deser_str" | "deser_misc" =>
    -- deserialisers other than JSON (serde::de::value): what they yield depends on serde's derive
    -- internals and is not part of any property; only "returns normally" is (C03)
    if out == "panic" || tget t "out2" == "panic" || tget t "out3" == "panic" then
      s.prop "C03" s!"nodeid_no_panic_{op}" s!"in={hex inp}"
    else s.chk
  | "debug" =>
    let s := s.cmp "nid.debug" (hex (NodeId.debug ⟨inp⟩)) out
    if unhex out == [48, 120] ++ hexLower inp then s.chk else s.prop "C16" "debug_is_full_0x_hex" s!"out={out}"
  | "display" =>
    -- "Display [prints] the first and last two bytes": the hex digits of the first two bytes, later
    -- those of the last two, and not the whole id; prefix and separator are not fixed
    let o := unhex out
    let rec afterSub (fuel : Nat) (pat l : Bytes) : Option Bytes :=
      match fuel with
      | 0 => none
      | fuel + 1 => if pat.isPrefixOf l then some (l.drop pat.length) else
          match l with
          | [] => none
          | _ :: tl => afterSub fuel pat tl
    let lower := o.map fun c => if 65 ≤ c.toNat && c.toNat ≤ 70 then UInt8.ofNat (c.toNat + 32) else c
    let good := match afterSub (lower.length + 1) (hexLower (inp.take 2)) lower with
      | some rest => (afterSub (rest.length + 1) (hexLower (inp.drop 30)) rest).isSome && o.length < 40
      | none => false
    if out == "panic" then s else
    if good then s.chk else s.prop "C16" "display_is_first_and_last_two_bytes" s!"out={out}"
  | _ => s

def handleCk (s : St) (t : Toks) : St :=
  let kind := tget t "kind"
  let inp := unhex (tget t "in")
  let res := tget t "res"
  let s := s.cov s!"ck/{kind}/{res}/{inp.length}"
  let s := if res == "panic" then s.prop "C03" "combined_key_no_panic" "" else s
  if kind == "secp" then
    -- valid exactly for 0 < d < n (32-byte inputs)
    let mpub := if inp.length == 32 then Secp.secretToPub inp else Secp.secretToPubK256 inp
    -- (C17 speaks of 32-byte secrets; what other lengths do for secp256k1 is the back-end's business)
    let s := if inp.length == 32 then s.cmp "ck.res" (if mpub.isSome then "ok" else "err") res else s.chk
    let s := if inp.length == 32 then
        (let d := beToNat inp
         let valid := 0 < d && d < Secp.n
         if valid == (res == "ok") then s.chk else s.prop "C17" "import_iff_valid_secret" s!"in={hex inp}")
      else s
    match mpub with
    | some P =>
      if res == "ok" then
        let s := if inp.length == 32 then s.cmp "ck.pub" (hex (Secp.compress P)) (tget t "pub") else s.chk
        let s := if tget t "export" == hex inp || inp.length != 32 then s.chk else s.prop "C17" "export_returns_secret" s!"export={tget t "export"}"
        let s := if unhex (tget t "buf") == List.replicate inp.length 0 then s.chk else s.prop "C17" "buffer_zeroed" s!"buf={tget t "buf"}"
        if tget t "signed" == "1" then s.chk else s.prop "C17" "record_signed_with_imported_key_verifies" ""
      else s
    | none => s   -- (whether the buffer of a refused import is wiped as well is not fixed)
  else
    let mpub := Ed.secretToPubBytes inp
    let s := s.cmp "ck.res" (if mpub.isSome then "ok" else "err") res
    let s := if (inp.length == 32) == (res == "ok") then s.chk else s.prop "C17" "ed_import_iff_32_bytes" s!"len={inp.length}"
    match mpub with
    | some pb =>
      if res == "ok" then
        let s := s.cmp "ck.pub" (hex pb) (tget t "pub")
        let s := if tget t "export" == hex inp then s.chk else s.prop "C17" "export_returns_secret" ""
        let s := if unhex (tget t "buf") == List.replicate inp.length 0 then s.chk else s.prop "C17" "buffer_zeroed" s!"buf={tget t "buf"}"
        if tget t "signed" == "1" then s.chk else s.prop "C17" "record_signed_with_imported_key_verifies" ""
      else s
    | none => s

/-! ### the dispatcher -/

/-- complete the pending input once its observation lines are in -/
def finishPending (s : St) (recs : List Obs) (acc : Option Toks) : St :=
  match s.pend, s.pendOut with
  | some (head, t), some o =>
    let s := { s with pend := none, pendOut := none }
    let schemeName := if thas t "scheme" then tget t "scheme" else s.scheme
    match mkDS schemeName with
    | none => s
    | some d =>
      let rec1 := recs.head?
      match head with
      | "dec" =>
        let s := handleDec d s t o rec1 false
        let s := handlePrefix s t o rec1
        -- a record accepted in a region the properties leave open, under a key the model cannot
        -- read (a SEC1 form it does not know), is the implementation's business
        let unknownKey := match rec1 with
          | some ob => tget t "expect" == "open" && (match d.S.enrToPublic ob.pairs with | .ok _ => false | .error _ => true)
          | none => false
        let (s, mi) := match rec1 with
          | some ob => if unknownKey then (s, none) else let x := checkRecord d s ob "dec"; (x.1, x.2.2)
          | none => (s, none)
        let s := match rec1, acc with
          | some ob, some a => if unknownKey then s else checkAcc d s ob a mi
          | _, _ => s
        -- group by buffer for C11
        let bufh := tget t "buf"
        let s := if s.groupBuf != bufh then flushGroup s else s
        { s with groupBuf := bufh, groupExpectOpen := tget t "expect" == "open",
                 group := (schemeName, resClass (tget o "res"), rec1) :: s.group }
      | "txt" => handleTxt d s t o rec1 false
      | "json" => handleTxt d s t o rec1 true
      | "jsondoc" => handleJsonDoc d s t o rec1
      | "decmany" => handleMany d s t o recs false
      | "declist" => handleMany d s t o recs true
      | "init" =>
        let s := if tget t "kind" == "build" || tget t "kind" == "empty" then handleBuild d s t o rec1
          else handleDec d s t o rec1 true
        let (s, mi) := match rec1 with
          | some ob => let x := checkRecord d s ob "init"; (x.1, x.2.2)
          | none => (s, none)
        let s := match rec1, acc with
          | some ob, some a => checkAcc d s ob a mi
          | _, _ => s
        { s with cur := rec1 }
      | "step" =>
        let op := tget t "op"
        if op == "teardown" then
          -- the same calls from the destructor of a thread-local of an exiting thread must come out as
          -- in an ordinary context (and, the record being one the library handed out, all succeed)
          let normal := tget o "normal"
          let tds := (tget o "td").splitOn ","
          let s := s.cov s!"teardown/{s.scheme}/{normal}/{tget o "td"}"
          let s := if normal.any (· == 'p') || tds.any (fun x => x.any (· == 'p')) then
              s.prop "C03" "no_panic_during_thread_teardown" s!"normal={normal} td={tget o "td"}" else s.chk
          let s := if tds.all (· == normal) then s.chk else
              (((s.prop "C03" "same_behaviour_during_thread_teardown" s!"normal={normal} td={tget o "td"}").prop
                "C11" "backends_interchangeable_in_every_context" s!"scheme={s.scheme} normal={normal} td={tget o "td"}").prop
                "C05" "verifies_under_own_key" s!"during thread teardown: normal={normal} td={tget o "td"}").prop
                "C08" "updates_take_effect_in_every_context" s!"normal={normal} td={tget o "td"}"
          s
        else if op == "snap" then
          match s.cur with
          | some c => { s with slots := (tget t "slot", c) :: s.slots.filter (·.1 != tget t "slot") }
          | none => s
        else if op == "cmp" then
          match rec1 with
          | some other => handleCmp s t o other
          | none => s
        else if op == "load" then
          -- the clone that is loaded must be the record that was stored
          let slot := (s.slots.find? (·.1 == tget t "slot")).map (·.2)
          let s := match slot, rec1 with
            | some st, some now =>
              if obsEq st now then s.chk else s.prop "C15" "clone_is_identical" s!"slot={tget t "slot"}"
            | _, _ => s
          -- and it is a record like any other the library hands out
          let s := match rec1 with
            | some now => (checkRecord d s now "step").1
            | none => s
          let s := if tget o "res" == "panic" then s.prop "C03" "clone_no_panic" "" else s
          { s with cur := match rec1 with
                          | some now => some now
                          | none => slot }
        else if op == "tamperdec" then
          if tget o "res" == "ok" then s.chk
          else if tget o "res" == "panic" then s.prop "C03" "decode_no_panic" ""
          else if tget o "res" == "accepted" then
            (s.prop "C01" "tampered_copy_of_own_record_rejected" s!"buf={tget o "buf"}").prop "C02" "input_without_a_valid_signature_rejected" s!"buf={tget o "buf"}"
          else s
        else if op == "setcur" then
          -- the current record is replaced by a decoded one
          let buf := unhex (tget t "buf")
          let m := decode d.S buf
          -- (whether a record with a 65-byte SEC1 key is taken is left to the implementation)
          let longKey := match m with
            | .ok (r, _) => (match pubEntry r.content kSecp with | .ok b => b.length == 65 | .error _ => false)
            | .error _ => false
          let s := if longKey then s.chk else
            s.cmp "dec.res" (match m with | .ok _ => "ok" | .error _ => "err") (resClass (tget o "res"))
          match rec1, m with
          | some now, .ok (r, _) =>
            if resClass (tget o "res") == "ok" then { (cmpRec s "dec" r now) with cur := some now } else s
          | _, _ => s
        else if op == "redecode" then
          match s.cur, rec1 with
          | some c, some after =>
            let s := if tget o "res" == "ok" then s.chk else s.prop "C05" "accepted_again_by_decoder" s!"res={tget o "res"}"
            let s := if obsEq c after then s.chk else s.prop "C04" "redecode_identical" ""
            -- the typed accessors of the decoded record (C14: "... through builder, setter, socket
            -- setter and decode")
            let s := match acc with
              | some a => if tget o "res" == "ok" then checkAcc d s after a none else s
              | none => s
            { s with cur := some after }
          | _, _ => s
        else
          match rec1 with
          | some after =>
            let s := { s with before := s.cur }
            let s := handleStep d s t o after
            -- (after a signer that answered with an invalid signature the record is not looked at:
            --  the library does not promise anything about it, only about refused calls)
            let badSigner := tget t "fail" == "2"
            let (s, mi) := if resClass (tget o "res") == "ok" && !badSigner then
                (let x := checkRecord d s after "step"; (x.1, x.2.2)) else (s, none)
            -- after a failed update the record is the one already examined after the previous step
            let unchanged := match s.before with
              | some b => resClass (tget o "res") != "ok" && obsEq b after
              | none => false
            let s := match acc with
              | some a => if unchanged || (badSigner && resClass (tget o "res") == "ok") then s else checkAcc d s after a mi
              | none => s
            { s with cur := some after }
          | none => s
      | _ => s
  | _, _ => s

structure Acc where
  st : St
  recs : List Obs := []
  acc : Option Toks := none

def flushAcc (a : Acc) : Acc :=
  { st := finishPending a.st a.recs.reverse a.acc, recs := [], acc := none }

def feed (a : Acc) (line : String) : Acc :=
  let (head, t) := parseToks line
  let a := { a with st := { a.st with lineNo := a.st.lineNo + 1, nLines := a.st.nLines + 1 } }
  match head with
  | "case" =>
    let a := flushAcc a
    let st := flushGroup a.st
    { a with st := { st with ctx := s!"{tget t "fam"}/{tget t "scheme"}/{tget t "id"}", scheme := tget t "scheme",
                             fam := tget t "fam", keys := #[], cur := none, slots := [], before := none } }
  | "key" =>
    { a with st := { a.st with keys := a.st.keys.push (unhex (tget t "pub")) } }
  | "dec" | "txt" | "json" | "jsondoc" | "decmany" | "declist" | "init" | "step" =>
    let a := flushAcc a
    let a := { a with st := { a.st with nInputs := a.st.nInputs + 1 } }
    let ctx := if head == "init" || head == "step" then a.st.ctx else s!"{head}/{tget t "scheme"}/{tget t "tag"}"
    -- the one-entry verification cache lives for one input line only: the next line may be read
    -- under another key type, whose verification function answers the same triple differently
    { a with st := { a.st with pend := some (head, t), ctx := ctx, lastVerify := none } }
  | "out" => { a with st := { a.st with pendOut := some t } }
  | "rec" | "other" => { a with recs := parseObs t :: a.recs }
  | "acc" => { a with acc := some t }
  | "nid" =>
    let a := flushAcc a
    let a := { a with st := { a.st with nInputs := a.st.nInputs + 1 } }
    { a with st := handleNid { a.st with ctx := s!"nid/{tget t "op"}" } t }
  | "alt" =>
    let a := flushAcc a
    { a with st := handleAlt { a.st with ctx := s!"alt/{tget t "scheme"}/{tget t "route"}", lastVerify := none } t }
  | "race" =>
    -- several nodes updating their own records at the same time: summary of the harness's own checks
    let a := flushAcc a
    let s := { a.st with ctx := s!"race/{tget t "scheme"}", nInputs := a.st.nInputs + 1 }
    let s := s.cov s!"race/{tget t "scheme"}/{tget t "updates"}"
    let s := if tget t "panics" != "0" then s.prop "C03" "no_panic_when_nodes_update_concurrently" s!"panics={tget t "panics"}" else s.chk
    let s := if tget t "bad" != "0" then
        ((s.prop "C05" "records_stay_valid_when_nodes_update_concurrently" s!"bad={tget t "bad"} of {tget t "updates"}").prop
          "C10" "node_id_is_hash_of_key" s!"concurrent updates: bad={tget t "bad"}").prop
          "C08" "updates_take_effect_in_every_context" s!"concurrent updates: bad={tget t "bad"}"
      else s.chk
    { a with st := s }
  | "ck" =>
    let a := flushAcc a
    let a := { a with st := { a.st with nInputs := a.st.nInputs + 1 } }
    { a with st := handleCk { a.st with ctx := s!"ck/{tget t "kind"}" } t }
  | "end" =>
    let a := flushAcc a
    a
  | _ => a

def finish (a : Acc) : St :=
  let s := flushGroup (flushAcc a).st
  let s := s.emit s!"STAT lines {s.nLines}"
  let s := s.emit s!"STAT inputs {s.nInputs}"
  let s := s.emit s!"STAT checks {s.nChecks}"
  let s := s.emit s!"STAT verifications {s.nVerify}"
  let s := s.emit s!"STAT diffs {s.nDiff}"
  s.emit s!"STAT propfails {s.nProp}"

end EnrVerif.Driver
