/-
  The accessors that return Rust `String`s (`id()`, `client_info()`): the stored bytes pass through
  `String::from_utf8_lossy`.  Strings are modelled as their UTF-8 bytes.
-/
import EnrVerif.Model.Enr
import EnrVerif.Model.Utf8

namespace EnrVerif
namespace Record

/-- `id()` -/
def idString (r : Record) : Option Bytes := r.id.map utf8Lossy

/-- `client_info()` -/
def clientInfoStrings (r : Record) : Option (Bytes × Bytes × Option Bytes) :=
  r.clientInfo.map fun (a, b, c) => (utf8Lossy a, utf8Lossy b, c.map utf8Lossy)

end Record
end EnrVerif
