/-
  Specification predicates: what the properties talk about, stated without reference to the
  decoder's control flow.  The property theorems (`Props/`) relate the implementation model
  (`Enr.lean`, `Mutators.lean`) to these; the driver evaluates the Bool-valued ones on the real
  implementation's observations.
-/
import EnrVerif.Model.Mutators

namespace EnrVerif

/-- A raw value is exactly one canonically framed RLP item (string or list; the payload of a list
    is not constrained). -/
def IsItem (v : Bytes) : Prop :=
  (∃ bs : Bytes, bs.length < 2 ^ 64 ∧ v = encBytes bs) ∨
  (∃ p : Bytes, p.length < 2 ^ 64 ∧ v = encList p)

/-- The typing EIP-778 and the decoder demand of the value stored under `key`. -/
def ValueOK (key v : Bytes) : Prop :=
  if key = kId then v = encBytes vV4
  else if isPortKey key then ∃ p : Nat, p < 65536 ∧ v = encUint p
  else if key = kIp then ∃ bs : Bytes, bs.length = 4 ∧ v = encBytes bs
  else if key = kIp6 then ∃ bs : Bytes, bs.length = 16 ∧ v = encBytes bs
  else if key = kSecp ∨ key = kEd then ∃ bs : Bytes, bs.length < 2 ^ 64 ∧ v = encBytes bs
  else IsItem v

/-- every pair is well formed -/
def ContentOK (c : Content) : Prop :=
  Map.Sorted c ∧ ∀ k v, (k, v) ∈ c → k.length < 2 ^ 64 ∧ ValueOK k v

/-- The record invariant ("always signed"): what every record handed out must satisfy. -/
structure Valid (S : Scheme) (r : Record) : Prop where
  seq_lt : r.seq < 2 ^ 64
  sig_len : r.sig.length < 2 ^ 64
  content : ContentOK r.content
  id_v4 : Map.lookup r.content kId = some (encBytes vV4)
  size_le : r.size ≤ MAX_ENR_SIZE
  authentic : ∃ pk, S.enrToPublic r.content = .ok pk ∧ r.nodeId = nodeIdOf S pk ∧
      S.verify pk r.rlpContent r.sig = true

/-- The declarative description of the byte strings the decoder must accept (C02): one list item
    of at most 300 bytes holding signature, sequence number and well-typed sorted pairs, with a
    valid public key of the scheme and a valid signature. -/
def WellFormed (S : Scheme) (buf : Bytes) : Prop :=
  ∃ (sig : Bytes) (seq : Nat) (c : Content),
    buf = encList (encBytes sig ++ encUint seq ++ Record.pairsBytes c) ∧
    buf.length ≤ MAX_ENR_SIZE ∧ seq < 2 ^ 64 ∧ ContentOK c ∧
    Map.lookup c kId = some (encBytes vV4) ∧
    ∃ pk, S.enrToPublic c = .ok pk ∧
      S.verify pk (encList (encUint seq ++ Record.pairsBytes c)) sig = true

/-- Laws a key type has to satisfy for the history theorems (hypotheses, never axioms).
    `Props/C11.lean` proves them for the four built-in key types (`k256S_lawful`, `libsecpS_lawful`,
    `edS_lawful`, `combS_lawful`), `Proofs/ToyScheme.lean` for the toy scheme of the examples.
    (The length bound on a key's encoding is not a law: it is the per-key predicate `KeyOK`.) -/
structure Scheme.Lawful (S : Scheme) : Prop where
  /-- a public key is determined by its entry name and its encoding -/
  pub_inj : ∀ a b : S.PK, S.enrKey a = S.enrKey b → S.encodePub a = S.encodePub b → a = b
  /-- the key entry is not one of the keys typed by the specification -/
  key_not_reserved : ∀ pk : S.PK, S.enrKey pk ≠ kId ∧ isPortKey (S.enrKey pk) = false ∧
    S.enrKey pk ≠ kIp ∧ S.enrKey pk ≠ kIp6
  /-- the public key is read from the public-key entries only -/
  pub_local : ∀ c1 c2 : Content,
    (∀ pk : S.PK, Map.lookup c1 (S.enrKey pk) = Map.lookup c2 (S.enrKey pk)) →
    S.enrToPublic c1 = S.enrToPublic c2

/-- The encoding and the entry name of a particular public key have lengths that fit the RLP
    length field.  A fact about the key in play (every real key: 33, 32 and 9 or 7 bytes), not a
    law of the key type: the model's `PK` of the built-in key types is all of `Bytes`. -/
def KeyOK (S : Scheme) (pk : S.PK) : Prop :=
  (S.encodePub pk).length < 2 ^ 64 ∧ (S.enrKey pk).length < 2 ^ 64

/-- The signer's answer verifies under the signer's public key over the payload it was asked to
    sign (`SigOK`): the assumption every history theorem makes about the signing oracle. -/
def SigOK (S : Scheme) (pk : S.PK) (payload : Bytes) (oracle : Option Bytes) : Prop :=
  ∀ sig, oracle = some sig → S.verify pk payload sig = true ∧ sig.length < 2 ^ 64

/-- Argument ranges the Rust types guarantee (`u16` ports, `u64` sequence numbers, `IpAddr`,
    slice lengths below 2^64). -/
def Op.WF {S : Scheme} : Op S → Prop
  | .setSeq s => s < 2 ^ 64
  | .insert k v => k.length < 2 ^ 64 ∧
      (match v with
       | .bytes b => b.length < 2 ^ 64
       | .uint n => n < 2 ^ 64
       | .strs l => (encStrs l).length < 2 ^ 64 ∧ ∀ x ∈ l, x.length < 2 ^ 64)
  | .insertRaw k _ => k.length < 2 ^ 64
  | .setIp ip => ip.length = 4 ∨ ip.length = 16
  | .setUdp4 p => p < 65536
  | .setUdp6 p => p < 65536
  | .setTcp4 p => p < 65536
  | .setTcp6 p => p < 65536
  | .setClientInfo n v b =>
      (encStrs (match b with
        | none => [n, v]
        | some x => [n, v, x])).length < 2 ^ 64 ∧ n.length < 2 ^ 64 ∧ v.length < 2 ^ 64 ∧
      ∀ x, b = some x → x.length < 2 ^ 64
  | .setUdpSocket ip port => (ip.length = 4 ∨ ip.length = 16) ∧ port < 65536
  | .setTcpSocket ip port => (ip.length = 4 ∨ ip.length = 16) ∧ port < 65536
  | .removeInsert _ ins => ∀ k v, (k, v) ∈ ins → k.length < 2 ^ 64 ∧ v.length < 2 ^ 64
  | .setPublicKey pk' => (S.encodePub pk').length < 2 ^ 64 ∧ (S.enrKey pk').length < 2 ^ 64
  | _ => True

/-- an update other than `set_seq` -/
def Op.isSetSeq {S : Scheme} : Op S → Bool
  | .setSeq _ => true
  | _ => false

/-- One update call of a history: operation, signer's public key, the signer's answer. -/
structure Call (S : Scheme) where
  op : Op S
  pk : S.PK
  oracle : Option Bytes

/-- the record after a history of update calls -/
def run (S : Scheme) (r : Record) : List (Call S) → Record
  | [] => r
  | c :: cs => run S (step S r c.op c.pk c.oracle).2 cs

/-- the call's arguments are in range, the signer's key has a length that fits, and the signer's
    answer verifies over what it was asked to sign -/
def CallOK (S : Scheme) (r : Record) (c : Call S) : Prop :=
  c.op.WF ∧ KeyOK S c.pk ∧ ∀ m, signRequest S r c.op c.pk = some m → SigOK S c.pk m c.oracle

/-- every call of the history is `CallOK` in the state it is applied to -/
def RunOK (S : Scheme) (r : Record) : List (Call S) → Prop
  | [] => True
  | c :: cs => CallOK S r c ∧ RunOK S (step S r c.op c.pk c.oracle).2 cs

/-- builder state invariant (established by `Builder.addRaw` from the empty builder) -/
def Builder.WF (b : Builder) : Prop :=
  b.seq < 2 ^ 64 ∧ Map.Sorted b.content ∧ ∀ k v, (k, v) ∈ b.content → k.length < 2 ^ 64

end EnrVerif
