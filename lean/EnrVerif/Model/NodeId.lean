/-
  Model of `/repo/src/node_id.rs` (`NodeId`, a 32-byte value type) including its serde module
  `serde_hex_prfx`, its `Debug` and its `Display` impl.

  Text is modelled as UTF-8 bytes.  `ser`/`deser` model the JSON *string content* (what is handed
  to `serialize_str` / what the `Cow<str>` holds), without the surrounding quotes.
-/
import EnrVerif.Model.Hex

namespace EnrVerif

/-- `struct NodeId { raw: [u8; 32] }`.  The length invariant is the separate predicate `WF`. -/
structure NodeId where
  raw : Bytes
  deriving DecidableEq, Repr

namespace NodeId

/-- The Rust type invariant `raw : [u8; 32]`. -/
def WF (id : NodeId) : Prop := id.raw.length = 32

instance (id : NodeId) : Decidable id.WF := inferInstanceAs (Decidable (id.raw.length = 32))

/-- `NodeId::new(&[u8; 32])`; the caller (the Rust type system) guarantees 32 bytes. -/
def new (b : Bytes) : NodeId := ⟨b⟩

/-- `impl From<[u8; 32]> for NodeId`. -/
def ofRaw (b : Bytes) : NodeId := ⟨b⟩

/-- `NodeId::raw(&self) -> [u8; 32]` is the structure projection `NodeId.raw`.
    `impl AsRef<[u8]>`: `&self.raw[..]`. -/
def asRef (id : NodeId) : Bytes := id.raw

/-- `impl PartialEq<[u8; 32]> for NodeId`. -/
def eqRaw (id : NodeId) (other : Bytes) : Bool := id.raw == other

/-- `NodeId::parse(&[u8])` AS REPAIRED: `Err` unless the slice has exactly 32 bytes. -/
def parse (b : Bytes) : Option NodeId :=
  if b.length = 32 then some ⟨b⟩ else none

/-- `NodeId::parse(&[u8])` as in the unrepaired code: `Err("Input too large")` iff longer than 32
    bytes, otherwise the input copied into a zeroed `[u8; 32]` (right-padded with zeros).
    Only used to document the defect. -/
def parseLegacy (b : Bytes) : Option NodeId :=
  if b.length > 32 then none else some ⟨b ++ List.replicate (32 - b.length) 0⟩

/-- `"0x"` -/
def prefix0x : Bytes := [48, 120]

/-- `serde_hex_prfx::serialize`: `format!("0x{}", hex::encode(data))`. -/
def ser (id : NodeId) : Bytes := prefix0x ++ hexLower id.raw

/-- `raw.strip_prefix("0x").unwrap_or(&raw)`: strips one leading lower-case `0x`, if present. -/
def strip0x (s : Bytes) : Bytes :=
  match s with
  | a :: b :: t => if a.toNat = 48 ∧ b.toNat = 120 then t else s
  | _ => s

/-- `serde_hex_prfx::deserialize` at `T = [u8; 32]`. -/
def deser (s : Bytes) : Option NodeId :=
  match fromHex32 (strip0x s) with
  | some b => some ⟨b⟩
  | none => none

/-- `impl Debug`: `write!(f, "0x{}", hex::encode(self.raw))`. -/
def debug (id : NodeId) : Bytes := prefix0x ++ hexLower id.raw

/-- `impl Display`:
    `write!(f, "0x{}..{}", &hex_encode[0..4], &hex_encode[hex_encode.len() - 4..])`. -/
def display (id : NodeId) : Bytes :=
  let h := hexLower id.raw
  prefix0x ++ h.take 4 ++ [46, 46] ++ h.drop (h.length - 4)

end NodeId

end EnrVerif
