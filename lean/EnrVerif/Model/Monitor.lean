/-
  The per-record predicates of the runtime monitor, as pure functions of the model.

  For every record the implementation hands out the driver (`Driver.checkRecord`) decides
    C09 size_le_300                 the encoding is at most 300 bytes long
    C05 has_public_key              the scheme's public key can be read from the content
    C05 verifies_under_own_key      the signature verifies under that key
    C05 id_is_v4                    the identity scheme is "v4"
    C10 node_id_is_hash_of_key      the node id is the hash of that key
    C04 redecode_identical /        the model's decoder accepts the encoding again, consumes all of
    C05 accepted_again_by_decoder   it and returns the same fields
  and prints a `PROP … FAIL` line for each one that is false.  (The comparisons of the
  implementation's `enc`/`size` strings with the model's need the observation and are not here.)

  The decisions are the functions below; `checkRecord` calls them, `recordFlags` collects the ones
  that fail.  `Props/C05Monitor.lean` proves `recordFlags S r = []` for every `Valid` record: on an
  implementation that behaves like the model these predicates never raise an alarm.

  No import besides the model: the driver executable links this file.
-/
import EnrVerif.Model.Spec

namespace EnrVerif.Monitor
open EnrVerif

/-- C09 `size_le_300` -/
def sizeOk (r : Record) : Bool := decide (r.size ≤ 300)

/-- C05 `id_is_v4` -/
def idOk (r : Record) : Bool := r.id == some vV4

/-- C10 `node_id_is_hash_of_key`, for the key `pk` read from the record's content -/
def nodeIdOk (S : Scheme) (pk : S.PK) (r : Record) : Bool := r.nodeId == nodeIdOf S pk

/-- what the model's decoder says about a record's own encoding -/
inductive Redecode
  /-- accepted, nothing left over, the same fields -/
  | identical
  /-- accepted, but with other fields or with bytes left over (C04 `redecode_identical` fails) -/
  | different
  /-- rejected (C05 `accepted_again_by_decoder` fails) -/
  | rejected (e : RlpErr)

/-- decode the record's encoding again -/
def redecode (S : Scheme) (r : Record) : Redecode :=
  match decode S r.encode with
  | .ok (r2, rest) => if r2 == r && rest.isEmpty then .identical else .different
  | .error e => .rejected e

/-- C04 `redecode_identical` and C05 `accepted_again_by_decoder` together -/
def redecodeOk (S : Scheme) (r : Record) : Bool :=
  match redecode S r with
  | .identical => true
  | _ => false

/-- the alarm (property, predicate) a re-decoding result raises -/
def Redecode.flags : Redecode → List (String × String)
  | .identical => []
  | .different => [("C04", "redecode_identical")]
  | .rejected _ => [("C05", "accepted_again_by_decoder")]

/-- one alarm unless the decision is `true` -/
def flagUnless (ok : Bool) (c pred : String) : List (String × String) :=
  if ok then [] else [(c, pred)]

/-- The (property, predicate) pairs of the per-record alarms the monitor raises for `r`, in the
    order `checkRecord` prints them.  Without a public key the remaining predicates are not
    evaluated (they all talk about the key). -/
def recordFlags (S : Scheme) (r : Record) : List (String × String) :=
  flagUnless (sizeOk r) "C09" "size_le_300" ++
  match S.enrToPublic r.content with
  | .error _ => [("C05", "has_public_key")]
  | .ok pk =>
    flagUnless (S.verify pk r.rlpContent r.sig) "C05" "verifies_under_own_key" ++
    flagUnless (idOk r) "C05" "id_is_v4" ++
    flagUnless (nodeIdOk S pk r) "C10" "node_id_is_hash_of_key" ++
    (redecode S r).flags

end EnrVerif.Monitor
