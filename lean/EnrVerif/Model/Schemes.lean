/-
  The concrete key types as `Scheme` instances.  A public key is represented by its canonical
  encoding (the bytes `EnrPublicKey::encode` returns); curve points are recomputed when needed by
  the model's own crypto code (`Secp256k1.lean`, `Ed25519.lean`, `Keccak.lean`).
-/
import EnrVerif.Model.Enr
import EnrVerif.Model.Keccak
import EnrVerif.Model.Secp256k1
import EnrVerif.Model.Ed25519

namespace EnrVerif

def kToy : Bytes := [116, 111, 121]

/-- `content.get(KEY)` then `Bytes::decode` -/
def pubEntry (c : Content) (key : Bytes) : Except RlpErr Bytes :=
  match Map.lookup c key with
  | none => .error (.custom .unknownSignature)
  | some raw =>
    match decodeBytes raw false with
    | .error e => .error e
    | .ok (b, _) => .ok b

/-- `k256::ecdsa::SigningKey` (`src/keys/k256_key.rs`) -/
def secpEnrToPublic (dec : Bytes → Option Secp.Pt) (rejectCompact : Bool) (c : Content) :
    Except RlpErr Bytes :=
  match pubEntry c kSecp with
  | .error e => .error e
  | .ok b =>
    if rejectCompact && b.head? == some 5 then .error (.custom .invalidPubkey)
    else
      match dec b with
      | none => .error (.custom .invalidPubkey)
      | some P => .ok (Secp.compress P)

def secpVerify (pk msg sig : Bytes) : Bool :=
  match Secp.decodePubK256 pk with
  | some P => Secp.verifyV4 P msg sig
  | none => false

def secpUncompressed (pk : Bytes) : Bytes :=
  match Secp.decodePubK256 pk with
  | some P => Secp.xy P
  | none => []

def k256S : Scheme where
  PK := Bytes
  enrKey _ := kSecp
  encodePub pk := pk
  uncompressed := secpUncompressed
  enrToPublic := secpEnrToPublic Secp.decodePubK256 true
  verify := secpVerify
  digest := keccak256

/-- `secp256k1::SecretKey` (`src/keys/rust_secp256k1.rs`) -/
def libsecpS : Scheme where
  PK := Bytes
  enrKey _ := kSecp
  encodePub pk := pk
  uncompressed := secpUncompressed
  enrToPublic := secpEnrToPublic Secp.decodePubLibsecp false
  verify := secpVerify
  digest := keccak256

def edEnrToPublic (c : Content) : Except RlpErr Bytes :=
  match pubEntry c kEd with
  | .error e => .error e
  | .ok b =>
    match Ed.decodePub b with
    | none => .error (.custom .invalidPubkey)
    | some A => .ok A.bytes

def edVerify (pk msg sig : Bytes) : Bool :=
  match Ed.decodePub pk with
  | some A => Ed.verify A msg sig
  | none => false

/-- `ed25519_dalek::SigningKey` (`src/keys/ed25519.rs`) -/
def edS : Scheme where
  PK := Bytes
  enrKey _ := kEd
  encodePub pk := pk
  uncompressed pk := pk
  enrToPublic := edEnrToPublic
  verify := edVerify
  digest := keccak256

/-- `CombinedKey` (`src/keys/combined.rs`): a 33-byte key is secp256k1, anything else ed25519 -/
def combS : Scheme where
  PK := Bytes
  enrKey pk := if pk.length = 33 then kSecp else kEd
  encodePub pk := pk
  uncompressed pk := if pk.length = 33 then secpUncompressed pk else pk
  enrToPublic c :=
    match k256S.enrToPublic c with
    | .ok pk => .ok pk
    | .error _ => edEnrToPublic c
  verify pk msg sig := if pk.length = 33 then secpVerify pk msg sig else edVerify pk msg sig
  digest := keccak256

/-- the toy scheme of the harness: signature = prefix of a keccak stream -/
def toyStream : Nat → Bytes → Bytes
  | 0, _ => []
  | n + 1, h => h ++ toyStream n (keccak256 h)

def toySign (pk msg : Bytes) : Bytes :=
  let h := keccak256 (pk ++ msg)
  let base := (pk.getD 0 0).toNat
  let spread := (pk.getD 1 0).toNat
  let len := base + (h.getD 0 0).toNat % (spread + 1)
  (toyStream (len / 32 + 1) h).take len

def toyEnrToPublic (c : Content) : Except RlpErr Bytes :=
  match pubEntry c kToy with
  | .error e => .error e
  | .ok b => if b.length = 4 then .ok b else .error (.custom .invalidPubkey)

def toyS : Scheme where
  PK := Bytes
  enrKey _ := kToy
  encodePub pk := pk
  uncompressed pk := pk
  enrToPublic := toyEnrToPublic
  verify pk msg sig := sig = toySign pk msg
  digest := keccak256

def schemeOf (name : String) : Option Scheme :=
  match name with
  | "k256" => some k256S
  | "libsecp" => some libsecpS
  | "ed" => some edS
  | "comb" => some combS
  | "toy" => some toyS
  | _ => none

end EnrVerif
