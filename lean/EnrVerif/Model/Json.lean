/-
  The JSON *string* layer of `serde_json` 1.0 (checked against 1.0.151: `ser.rs`
  `format_escaped_str`/`ESCAPE`/`write_char_escape`; `read.rs` `SliceRead::parse_str_bytes`
  (`validate = true`, as used by `StrRead::parse_str`), `parse_escape`, `parse_unicode_escape`,
  `decode_hex_escape`, `decode_four_hex_digits`, `push_wtf8_codepoint`; `de.rs` `deserialize_str`,
  `parse_whitespace`, `end`).

  `Enr<K>: Serialize` is `serializer.serialize_str(&self.to_base64())` and `Deserialize` is
  `String::deserialize` followed by `from_str`; so with `serde_json` the document of a record is the
  JSON string literal of its text form, and any JSON string literal whose unescaped content `from_str`
  accepts is accepted.  The same layer carries `NodeId` (`"0x…"` hex strings).

  Text is modelled by its UTF-8 bytes.  `serde_json::from_str` takes a `&str`, i.e. input that is valid
  UTF-8 already, so bytes ≥ 0x80 of the input are copied unchanged (exactly what `StrRead` does: it
  does not re-validate).  For an input that is NOT valid UTF-8 the functions below describe
  `from_slice` without its final `str::from_utf8` check.
-/
import EnrVerif.Model.Text

namespace EnrVerif

/-! ### serialisation: `serde_json::to_string(&str)` -/

/-- `ESCAPE[byte]` + `write_char_escape`: the JSON spelling of one byte of the string. -/
def jsonEscapeByte (c : UInt8) : Bytes :=
  if c.toNat = 34 then [92, 34]             -- `"`  ↦ `\"`
  else if c.toNat = 92 then [92, 92]        -- `\`  ↦ `\\`
  else if c.toNat = 8 then [92, 98]         -- 0x08 ↦ `\b`
  else if c.toNat = 12 then [92, 102]       -- 0x0c ↦ `\f`
  else if c.toNat = 10 then [92, 110]       -- 0x0a ↦ `\n`
  else if c.toNat = 13 then [92, 114]       -- 0x0d ↦ `\r`
  else if c.toNat = 9 then [92, 116]        -- 0x09 ↦ `\t`
  else if c.toNat < 0x20 then               -- other controls ↦ `\u00XX`, lower-case hex
    [92, 117, 48, 48, hexDigit (c.toNat / 16), hexDigit (c.toNat % 16)]
  else [c]                                  -- everything else (0x7f and non-ASCII too) verbatim

/-- `format_escaped_str_contents` -/
def jsonEscape : Bytes → Bytes
  | [] => []
  | c :: cs => jsonEscapeByte c ++ jsonEscape cs

/-- `serde_json::to_string(&str)` for the string whose UTF-8 bytes are `s`. -/
def jsonQuote (s : Bytes) : Bytes := 34 :: (jsonEscape s ++ [34])

/-! ### deserialisation: `serde_json::from_str::<String>` -/

/-- `decode_hex_val_slow`: hex digits of either case. -/
def jsonHexVal (c : UInt8) : Option Nat :=
  if 48 ≤ c.toNat ∧ c.toNat ≤ 57 then some (c.toNat - 48)
  else if 65 ≤ c.toNat ∧ c.toNat ≤ 70 then some (c.toNat - 55)
  else if 97 ≤ c.toNat ∧ c.toNat ≤ 102 then some (c.toNat - 87)
  else none

/-- `decode_four_hex_digits` -/
def jsonHex4 (a b c d : UInt8) : Option Nat :=
  match jsonHexVal a, jsonHexVal b, jsonHexVal c, jsonHexVal d with
  | some x, some y, some z, some w => some (x * 4096 + y * 256 + z * 16 + w)
  | _, _, _, _ => none

/-- `push_wtf8_codepoint`: UTF-8 encoding of a code point `n < 0x110000`. -/
def utf8Encode (n : Nat) : Bytes :=
  if n < 0x80 then [UInt8.ofNat n]
  else if n < 0x800 then [UInt8.ofNat (0xC0 + n / 64), UInt8.ofNat (0x80 + n % 64)]
  else if n < 0x10000 then
    [UInt8.ofNat (0xE0 + n / 4096), UInt8.ofNat (0x80 + n / 64 % 64), UInt8.ofNat (0x80 + n % 64)]
  else
    [UInt8.ofNat (0xF0 + n / 262144 % 8), UInt8.ofNat (0x80 + n / 4096 % 64),
     UInt8.ofNat (0x80 + n / 64 % 64), UInt8.ofNat (0x80 + n % 64)]

/-- the one-character escapes of `parse_escape` (the byte after the backslash ↦ the byte denoted) -/
def jsonSimpleEscape (e : UInt8) : Option UInt8 :=
  if e.toNat = 34 then some 34          -- `\"`
  else if e.toNat = 92 then some 92     -- `\\`
  else if e.toNat = 47 then some 47     -- `\/`
  else if e.toNat = 98 then some 8      -- `\b`
  else if e.toNat = 102 then some 12    -- `\f`
  else if e.toNat = 110 then some 10    -- `\n`
  else if e.toNat = 114 then some 13    -- `\r`
  else if e.toNat = 116 then some 9     -- `\t`
  else none

def isHighSurrogate (n : Nat) : Bool := 0xD800 ≤ n && n ≤ 0xDBFF
def isLowSurrogate (n : Nat) : Bool := 0xDC00 ≤ n && n ≤ 0xDFFF

/-- the code point of a surrogate pair -/
def surrogatePair (hi lo : Nat) : Nat := (hi - 0xD800) * 1024 + (lo - 0xDC00) + 0x10000

/-- prepend output to the result of the rest of the parse -/
def jsonEmit (out : Bytes) : Option (Bytes × Bytes) → Option (Bytes × Bytes)
  | none => none
  | some (s, rest) => some (out ++ s, rest)

/-- `parse_str_bytes` with `validate = true`, started just after the opening quote: the string denoted
    and the input after the closing quote; `none` for every error (end of input inside the literal,
    raw control character, unknown or truncated escape, bad hex digit, lone trailing surrogate,
    leading surrogate not followed by `\u` + trailing surrogate). -/
def jsonStrBody : Bytes → Option (Bytes × Bytes)
  | [] => none                                                  -- EofWhileParsingString
  | c :: cs =>
    if c.toNat = 34 then some ([], cs)                          -- closing quote
    else if c.toNat < 0x20 then none                            -- ControlCharacterWhileParsingString
    else if c.toNat ≠ 92 then jsonEmit [c] (jsonStrBody cs)     -- ordinary byte
    else
      match cs with
      | [] => none                                              -- EofWhileParsingString
      | e :: es =>
        if e.toNat ≠ 117 then
          match jsonSimpleEscape e with
          | some b => jsonEmit [b] (jsonStrBody es)
          | none => none                                        -- InvalidEscape
        else
          match es with
          | h1 :: h2 :: h3 :: h4 :: rest =>
            match jsonHex4 h1 h2 h3 h4 with
            | none => none                                      -- InvalidEscape
            | some n =>
              if isLowSurrogate n then none                     -- LoneLeadingSurrogateInHexEscape
              else if !isHighSurrogate n then jsonEmit (utf8Encode n) (jsonStrBody rest)
              else
                match rest with
                | b2 :: u2 :: k1 :: k2 :: k3 :: k4 :: rest2 =>
                  if b2.toNat ≠ 92 ∨ u2.toNat ≠ 117 then none   -- UnexpectedEndOfHexEscape
                  else
                    match jsonHex4 k1 k2 k3 k4 with
                    | none => none                              -- InvalidEscape
                    | some n2 =>
                      if isLowSurrogate n2 then
                        jsonEmit (utf8Encode (surrogatePair n n2)) (jsonStrBody rest2)
                      else none                                 -- LoneLeadingSurrogateInHexEscape
                | _ => none       -- end of input / UnexpectedEndOfHexEscape: fewer than 6 bytes left,
                                  -- so no `\uXXXX` and no closing quote after it can follow
          | _ => none                                           -- EofWhileParsingString

/-- JSON whitespace (`parse_whitespace`) -/
def isJsonWs (c : UInt8) : Bool :=
  c.toNat = 32 || c.toNat = 9 || c.toNat = 10 || c.toNat = 13

def skipJsonWs : Bytes → Bytes
  | [] => []
  | c :: cs => if isJsonWs c then skipJsonWs cs else c :: cs

/-- `serde_json::from_str::<String>(j)`: `some s` iff `j` is one string literal with optional JSON
    whitespace around it (`none` = any error, including any other JSON value such as `null`). -/
def jsonUnquote (j : Bytes) : Option Bytes :=
  match skipJsonWs j with
  | [] => none                                                  -- EofWhileParsingValue
  | q :: body =>
    if q.toNat ≠ 34 then none                                   -- invalid type / syntax error
    else
      match jsonStrBody body with
      | none => none
      | some (s, rest) =>
        match skipJsonWs rest with                              -- `Deserializer::end`
        | [] => some s
        | _ :: _ => none                                        -- TrailingCharacters

/-! ### records -/

/-- `serde_json::to_string(&enr)` -/
def Record.toJsonDoc (r : Record) : Bytes := jsonQuote r.toText

/-- `serde_json::from_str::<Enr<K>>(j)` (`none` = any error) -/
def parseJson (S : Scheme) (j : Bytes) : Option Record := (jsonUnquote j).bind (parseText S)

end EnrVerif
