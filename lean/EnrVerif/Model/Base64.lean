/-
  URL-safe, unpadded base64 exactly as the `base64` 0.22.1 crate's `URL_SAFE_NO_PAD` engine
  implements it (`engine/general_purpose/{mod,decode,decode_suffix}.rs`, `alphabet.rs`).

  Engine configuration: alphabet `A–Z a–z 0–9 - _`, `encode_padding = false`,
  `decode_padding_mode = RequireNone`, `decode_allow_trailing_bits = false`.

  Decoder behaviour that is modelled (error *kinds* are collapsed into `none`):
  * every complete non-terminal quad is decoded by `decode_chunk_4/8`; any byte whose decode-table
    entry is `INVALID_VALUE` (this includes `=`, white space, `+`, `/`) is `InvalidByte`;
  * the last 1..4 input bytes go to `decode_suffix`:
      - `=` at offset 0/1 is `InvalidByte`; `=` at offset 2/3 is counted as padding and then either a
        non-`=` follows (`InvalidByte`) or the input ends, in which case `morsels < 2` gives
        `InvalidLength` or `RequireNone` gives `InvalidPadding`; hence *any* `=` is an error;
      - any other invalid byte is `InvalidByte`;
      - exactly one symbol in the suffix (length ≡ 1 mod 4) is `InvalidLength`;
      - 2 symbols give 1 byte and the low 4 bits of the 2nd symbol must be 0, 3 symbols give 2 bytes
        and the low 2 bits of the 3rd symbol must be 0 (`InvalidLastSymbol` otherwise);
      - 4 symbols give 3 bytes (mask is `0xFF` on bits that are always 0);
  * the empty input is accepted and yields the empty output.

  All arithmetic is on `Nat` with `/`, `%`, `*` (no shifts) so that `omega` applies.
-/
import EnrVerif.Model.Bytes

namespace EnrVerif

/-- The URL-safe alphabet: symbol of the 6-bit value `n` (`n < 64`). -/
def b64sym (n : Nat) : UInt8 :=
  if n < 26 then UInt8.ofNat (65 + n)        -- 'A'..'Z'
  else if n < 52 then UInt8.ofNat (71 + n)   -- 'a'..'z'  (97 + (n - 26))
  else if n < 62 then UInt8.ofNat (n - 4)    -- '0'..'9'  (48 + (n - 52))
  else if n = 62 then 45                     -- '-'
  else 95                                    -- '_'

/-- The decode table: `none` is the crate's `INVALID_VALUE`. -/
def b64val (c : UInt8) : Option Nat :=
  let n := c.toNat
  if 65 ≤ n ∧ n ≤ 90 then some (n - 65)
  else if 97 ≤ n ∧ n ≤ 122 then some (n - 71)
  else if 48 ≤ n ∧ n ≤ 57 then some (n + 4)
  else if n = 45 then some 62
  else if n = 95 then some 63
  else none

/-- Membership in the URL-safe alphabet. -/
def isB64Char (c : UInt8) : Bool := (b64val c).isSome

/-- `URL_SAFE_NO_PAD.encode` -/
def b64enc : Bytes → Bytes
  | [] => []
  | [a] => [b64sym (a.toNat / 4), b64sym (a.toNat % 4 * 16)]
  | [a, b] =>
      [b64sym (a.toNat / 4), b64sym (a.toNat % 4 * 16 + b.toNat / 16), b64sym (b.toNat % 16 * 4)]
  | a :: b :: c :: rest =>
      b64sym (a.toNat / 4) :: b64sym (a.toNat % 4 * 16 + b.toNat / 16)
        :: b64sym (b.toNat % 16 * 4 + c.toNat / 64) :: b64sym (c.toNat % 64) :: b64enc rest

/-- `URL_SAFE_NO_PAD.decode`; `none` is any `DecodeError`. -/
def b64dec : Bytes → Option Bytes
  | [] => some []
  | [_] => none
  | [c0, c1] =>
      match b64val c0, b64val c1 with
      | some v0, some v1 =>
          if v1 % 16 = 0 then some [UInt8.ofNat (v0 * 4 + v1 / 16)] else none
      | _, _ => none
  | [c0, c1, c2] =>
      match b64val c0, b64val c1, b64val c2 with
      | some v0, some v1, some v2 =>
          if v2 % 4 = 0 then
            some [UInt8.ofNat (v0 * 4 + v1 / 16), UInt8.ofNat (v1 % 16 * 16 + v2 / 4)]
          else none
      | _, _, _ => none
  | c0 :: c1 :: c2 :: c3 :: rest =>
      match b64val c0, b64val c1, b64val c2, b64val c3, b64dec rest with
      | some v0, some v1, some v2, some v3, some r =>
          some (UInt8.ofNat (v0 * 4 + v1 / 16) :: UInt8.ofNat (v1 % 16 * 16 + v2 / 4)
                  :: UInt8.ofNat (v2 % 4 * 64 + v3) :: r)
      | _, _, _, _, _ => none

end EnrVerif
