/-
  SHA-512 (FIPS 180-4).  Independent re-implementation used by the Ed25519 oracle (`sha2` crate in the
  real code).  `UInt64` words with wrapping arithmetic.  Core Lean only; every function is total.
-/
import EnrVerif.Model.Bytes

namespace EnrVerif

namespace Sha512

def K : Array UInt64 := #[
  0x428a2f98d728ae22, 0x7137449123ef65cd, 0xb5c0fbcfec4d3b2f, 0xe9b5dba58189dbbc,
  0x3956c25bf348b538, 0x59f111f1b605d019, 0x923f82a4af194f9b, 0xab1c5ed5da6d8118,
  0xd807aa98a3030242, 0x12835b0145706fbe, 0x243185be4ee4b28c, 0x550c7dc3d5ffb4e2,
  0x72be5d74f27b896f, 0x80deb1fe3b1696b1, 0x9bdc06a725c71235, 0xc19bf174cf692694,
  0xe49b69c19ef14ad2, 0xefbe4786384f25e3, 0x0fc19dc68b8cd5b5, 0x240ca1cc77ac9c65,
  0x2de92c6f592b0275, 0x4a7484aa6ea6e483, 0x5cb0a9dcbd41fbd4, 0x76f988da831153b5,
  0x983e5152ee66dfab, 0xa831c66d2db43210, 0xb00327c898fb213f, 0xbf597fc7beef0ee4,
  0xc6e00bf33da88fc2, 0xd5a79147930aa725, 0x06ca6351e003826f, 0x142929670a0e6e70,
  0x27b70a8546d22ffc, 0x2e1b21385c26c926, 0x4d2c6dfc5ac42aed, 0x53380d139d95b3df,
  0x650a73548baf63de, 0x766a0abb3c77b2a8, 0x81c2c92e47edaee6, 0x92722c851482353b,
  0xa2bfe8a14cf10364, 0xa81a664bbc423001, 0xc24b8b70d0f89791, 0xc76c51a30654be30,
  0xd192e819d6ef5218, 0xd69906245565a910, 0xf40e35855771202a, 0x106aa07032bbd1b8,
  0x19a4c116b8d2d0c8, 0x1e376c085141ab53, 0x2748774cdf8eeb99, 0x34b0bcb5e19b48a8,
  0x391c0cb3c5c95a63, 0x4ed8aa4ae3418acb, 0x5b9cca4f7763e373, 0x682e6ff3d6b2b8a3,
  0x748f82ee5defb2fc, 0x78a5636f43172f60, 0x84c87814a1f0ab72, 0x8cc702081a6439ec,
  0x90befffa23631e28, 0xa4506cebde82bde9, 0xbef9a3f7b2c67915, 0xc67178f2e372532b,
  0xca273eceea26619c, 0xd186b8c721c0c207, 0xeada7dd6cde0eb1e, 0xf57d4f7fee6ed178,
  0x06f067aa72176fba, 0x0a637dc5a2c898a6, 0x113f9804bef90dae, 0x1b710b35131c471b,
  0x28db77f523047d84, 0x32caab7b40c72493, 0x3c9ebe0a15c9bebc, 0x431d67c49c100d4c,
  0x4cc5d4becb3e42b6, 0x597f299cfc657e2a, 0x5fcb6fab3ad6faec, 0x6c44198c4a475817]

def H0 : Array UInt64 := #[
  0x6a09e667f3bcc908, 0xbb67ae8584caa73b, 0x3c6ef372fe94f82b, 0xa54ff53a5f1d36f1,
  0x510e527fade682d1, 0x9b05688c2b3e6c1f, 0x1f83d9abfb41bd6b, 0x5be0cd19137e2179]

@[inline] def rotr (x : UInt64) (k : UInt64) : UInt64 :=
  (x >>> k) ||| (x <<< (64 - k))

@[inline] def bigSigma0 (x : UInt64) : UInt64 := rotr x 28 ^^^ rotr x 34 ^^^ rotr x 39
@[inline] def bigSigma1 (x : UInt64) : UInt64 := rotr x 14 ^^^ rotr x 18 ^^^ rotr x 41
@[inline] def smallSigma0 (x : UInt64) : UInt64 := rotr x 1 ^^^ rotr x 8 ^^^ (x >>> 7)
@[inline] def smallSigma1 (x : UInt64) : UInt64 := rotr x 19 ^^^ rotr x 61 ^^^ (x >>> 6)

/-- Big-endian 64-bit word read from `data` at byte offset `off`. -/
@[inline] def wordAt (data : Array UInt8) (off : Nat) : UInt64 :=
  ((data[off]!).toUInt64 <<< 56)
    ||| ((data[off + 1]!).toUInt64 <<< 48)
    ||| ((data[off + 2]!).toUInt64 <<< 40)
    ||| ((data[off + 3]!).toUInt64 <<< 32)
    ||| ((data[off + 4]!).toUInt64 <<< 24)
    ||| ((data[off + 5]!).toUInt64 <<< 16)
    ||| ((data[off + 6]!).toUInt64 <<< 8)
    ||| (data[off + 7]!).toUInt64

/-- The 8 bytes of a word, big-endian. -/
def wordBytes (w : UInt64) : Bytes :=
  [(w >>> 56).toUInt8, (w >>> 48).toUInt8, (w >>> 40).toUInt8, (w >>> 32).toUInt8,
   (w >>> 24).toUInt8, (w >>> 16).toUInt8, (w >>> 8).toUInt8, w.toUInt8]

/-- SHA-512 padding: `0x80`, zeros, 128-bit big-endian bit length; result length is a multiple of 128. -/
def pad (m : Bytes) : Bytes :=
  let len := m.length
  let r := (len + 1 + 16) % 128
  let zeros := if r = 0 then 0 else 128 - r
  m ++ [0x80] ++ List.replicate zeros 0x00 ++ natToBeFixed 16 (8 * len)

/-- Compression of one 128-byte block starting at `base`. -/
def compress (h : Array UInt64) (data : Array UInt8) (base : Nat) : Array UInt64 := Id.run do
  let mut w : Array UInt64 := Array.replicate 80 0
  for t in [0:16] do
    w := w.set! t (wordAt data (base + 8 * t))
  for t in [16:80] do
    w := w.set! t (smallSigma1 w[t - 2]! + w[t - 7]! + smallSigma0 w[t - 15]! + w[t - 16]!)
  let mut a := h[0]!
  let mut b := h[1]!
  let mut c := h[2]!
  let mut d := h[3]!
  let mut e := h[4]!
  let mut f := h[5]!
  let mut g := h[6]!
  let mut hh := h[7]!
  for t in [0:80] do
    let ch := (e &&& f) ^^^ ((~~~ e) &&& g)
    let maj := (a &&& b) ^^^ (a &&& c) ^^^ (b &&& c)
    let t1 := hh + bigSigma1 e + ch + K[t]! + w[t]!
    let t2 := bigSigma0 a + maj
    hh := g
    g := f
    f := e
    e := d + t1
    d := c
    c := b
    b := a
    a := t1 + t2
  return #[h[0]! + a, h[1]! + b, h[2]! + c, h[3]! + d, h[4]! + e, h[5]! + f, h[6]! + g, h[7]! + hh]

end Sha512

open Sha512 in
/-- SHA-512 of a byte string (64-byte output). -/
def sha512 (m : Bytes) : Bytes := Id.run do
  let data := (pad m).toArray
  let nblocks := data.size / 128
  let mut h := H0
  for b in [0:nblocks] do
    h := compress h data (b * 128)
  return wordBytes h[0]! ++ wordBytes h[1]! ++ wordBytes h[2]! ++ wordBytes h[3]!
    ++ wordBytes h[4]! ++ wordBytes h[5]! ++ wordBytes h[6]! ++ wordBytes h[7]!

end EnrVerif
