/-
  UTF-8 well-formedness and Rust's lossy conversion, on byte lists.

  * `utf8Valid b`  =  `core::str::from_utf8(b).is_ok()`:  `b` is well-formed UTF-8 in the sense of the
    Unicode standard, Table 3-7 (no overlong forms, no surrogates U+D800..U+DFFF, nothing above
    U+10FFFF; lead bytes `C2..F4` only; restricted second byte after `E0`, `ED`, `F0`, `F4`).
  * `utf8Lossy b`  =  the UTF-8 bytes of `String::from_utf8_lossy(b)`.  The Rust function walks
    `core::str::lossy::Utf8Chunks` (library/core/src/str/lossy.rs): it scans one scalar value at a
    time; a lead byte with width 2/3/4 (table `UTF8_CHAR_WIDTH`: `C2..DF ↦ 2`, `E0..EF ↦ 3`,
    `F0..F4 ↦ 4`, everything else `≥ 80` has width 0) is followed by a second byte checked against
    the Table 3-7 range for that lead byte, then by plain continuation bytes `80..BF`.  As soon as a
    check fails (or the input ends: `safe_get` yields `0`, which is never a continuation byte) the
    bytes accepted *so far* (lead byte and the continuation bytes that did pass: the "maximal invalid
    subpart", 1..3 bytes) form the invalid part of the chunk, the offending byte is *not* consumed,
    and the scan restarts at it (hence the recursive calls on `b1 :: r1` etc. below).
    `from_utf8_lossy` emits U+FFFD (`EF BF BD`) once per invalid part and copies the valid parts.

  Both functions are structurally recursive on the list (every step consumes at least one byte); no
  fuel, no proofs inside the definitions.
-/
import EnrVerif.Model.Bytes

namespace EnrVerif

/-- continuation byte `80..BF` (Rust: `b & 0xC0 == 0x80`) -/
def utf8IsCont (c : UInt8) : Bool := 0x80 ≤ c.toNat && c.toNat ≤ 0xBF

/-- lead byte of a 2-byte sequence, `C2..DF` (`C0`, `C1` would be overlong) -/
def utf8IsLead2 (c : UInt8) : Bool := 0xC2 ≤ c.toNat && c.toNat ≤ 0xDF

/-- lead byte of a 3-byte sequence, `E0..EF` -/
def utf8IsLead3 (c : UInt8) : Bool := 0xE0 ≤ c.toNat && c.toNat ≤ 0xEF

/-- lead byte of a 4-byte sequence, `F0..F4` (`F5..FF` never occur) -/
def utf8IsLead4 (c : UInt8) : Bool := 0xF0 ≤ c.toNat && c.toNat ≤ 0xF4

/-- admissible second byte after a 3-byte lead:
    `E0 ↦ A0..BF` (no overlongs), `ED ↦ 80..9F` (no surrogates), otherwise `80..BF` -/
def utf8Second3 (b0 b1 : UInt8) : Bool :=
  if b0.toNat = 0xE0 then 0xA0 ≤ b1.toNat && b1.toNat ≤ 0xBF
  else if b0.toNat = 0xED then 0x80 ≤ b1.toNat && b1.toNat ≤ 0x9F
  else utf8IsCont b1

/-- admissible second byte after a 4-byte lead:
    `F0 ↦ 90..BF` (no overlongs), `F4 ↦ 80..8F` (at most U+10FFFF), otherwise `80..BF` -/
def utf8Second4 (b0 b1 : UInt8) : Bool :=
  if b0.toNat = 0xF0 then 0x90 ≤ b1.toNat && b1.toNat ≤ 0xBF
  else if b0.toNat = 0xF4 then 0x80 ≤ b1.toNat && b1.toNat ≤ 0x8F
  else utf8IsCont b1

/-- U+FFFD REPLACEMENT CHARACTER in UTF-8 -/
def utf8Repl : Bytes := [0xEF, 0xBF, 0xBD]

/-- `core::str::from_utf8(b).is_ok()` -/
def utf8Valid : Bytes → Bool
  | [] => true
  | b0 :: r0 =>
    if b0.toNat < 0x80 then utf8Valid r0
    else if utf8IsLead2 b0 then
      match r0 with
      | b1 :: r1 => utf8IsCont b1 && utf8Valid r1
      | [] => false
    else if utf8IsLead3 b0 then
      match r0 with
      | b1 :: b2 :: r2 => utf8Second3 b0 b1 && utf8IsCont b2 && utf8Valid r2
      | _ => false
    else if utf8IsLead4 b0 then
      match r0 with
      | b1 :: b2 :: b3 :: r3 => utf8Second4 b0 b1 && utf8IsCont b2 && utf8IsCont b3 && utf8Valid r3
      | _ => false
    else false

/-- the UTF-8 bytes of `String::from_utf8_lossy(b)` -/
def utf8Lossy : Bytes → Bytes
  | [] => []
  | b0 :: r0 =>
    if b0.toNat < 0x80 then b0 :: utf8Lossy r0
    else if utf8IsLead2 b0 then
      match r0 with
      | b1 :: r1 =>
        if utf8IsCont b1 then b0 :: b1 :: utf8Lossy r1
        else utf8Repl ++ utf8Lossy (b1 :: r1)                   -- invalid part `[b0]`
      | [] => utf8Repl
    else if utf8IsLead3 b0 then
      match r0 with
      | b1 :: r1 =>
        if utf8Second3 b0 b1 then
          match r1 with
          | b2 :: r2 =>
            if utf8IsCont b2 then b0 :: b1 :: b2 :: utf8Lossy r2
            else utf8Repl ++ utf8Lossy (b2 :: r2)               -- invalid part `[b0, b1]`
          | [] => utf8Repl
        else utf8Repl ++ utf8Lossy (b1 :: r1)                   -- invalid part `[b0]`
      | [] => utf8Repl
    else if utf8IsLead4 b0 then
      match r0 with
      | b1 :: r1 =>
        if utf8Second4 b0 b1 then
          match r1 with
          | b2 :: r2 =>
            if utf8IsCont b2 then
              match r2 with
              | b3 :: r3 =>
                if utf8IsCont b3 then b0 :: b1 :: b2 :: b3 :: utf8Lossy r3
                else utf8Repl ++ utf8Lossy (b3 :: r3)           -- invalid part `[b0, b1, b2]`
              | [] => utf8Repl
            else utf8Repl ++ utf8Lossy (b2 :: r2)               -- invalid part `[b0, b1]`
          | [] => utf8Repl
        else utf8Repl ++ utf8Lossy (b1 :: r1)                   -- invalid part `[b0]`
      | [] => utf8Repl
    else utf8Repl ++ utf8Lossy r0                               -- `80..C1`, `F5..FF`: invalid part `[b0]`

end EnrVerif
