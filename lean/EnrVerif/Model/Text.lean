/-
  The text form (`to_base64`, `Display`, `FromStr`) and the JSON form (`Serialize`/`Deserialize`)
  of a record.  Text is modelled as its UTF-8 bytes.
-/
import EnrVerif.Model.Enr
import EnrVerif.Model.Base64

namespace EnrVerif

/-- "enr:" -/
def enrPrefix : Bytes := [101, 110, 114, 58]

namespace Record

/-- `to_base64()` (also `Display`) -/
def toText (r : Record) : Bytes := enrPrefix ++ b64enc r.encode

/-- the JSON document `Serialize` produces: the text as a JSON string (no character of the text
    needs escaping) -/
def toJson (r : Record) : Bytes := [34] ++ r.toText ++ [34]

end Record

/-- `<Enr<K> as FromStr>::from_str` (`none` = any error) -/
def parseText (S : Scheme) (s : Bytes) : Option Record :=
  if s.length < 4 then none
  else
    let body := if enrPrefix.isPrefixOf s then s.drop 4 else s
    match b64dec body with
    | none => none
    | some bytes =>
      match decode S bytes with
      | .error _ => none
      | .ok (r, rest) => if rest.isEmpty then some r else none

end EnrVerif
