/-
  Hex decoding as the `hex` 0.4.3 crate implements it (`src/lib.rs`):

  * `val(c)`                         ↦ `hexVal`    (accepts `0-9 a-f A-F`)
  * `<Vec<u8> as FromHex>::from_hex` ↦ `fromHex`   (`hex::decode`; `OddLength`, then per pair
                                                    `InvalidHexCharacter`)
  * `<[u8; 32] as FromHex>::from_hex` = `decode_to_slice(hex, &mut [0u8; 32])` ↦ `fromHex32`
      order of checks: `len % 2 != 0` → `OddLength`; `len / 2 != 32` → `InvalidStringLength`;
      then every pair, first invalid digit → `InvalidHexCharacter`.

  Error kinds are collapsed into `none`.  `hexLower` (= `hex::encode`) is in `Model/Bytes.lean`.
-/
import EnrVerif.Model.Bytes

namespace EnrVerif

/-- `hex::val`: value of one hex digit, `none` = `InvalidHexCharacter`. -/
def hexVal (c : UInt8) : Option Nat :=
  let n := c.toNat
  if 48 ≤ n ∧ n ≤ 57 then some (n - 48)        -- '0'..'9'
  else if 97 ≤ n ∧ n ≤ 102 then some (n - 87)  -- 'a'..'f'
  else if 65 ≤ n ∧ n ≤ 70 then some (n - 55)   -- 'A'..'F'
  else none

/-- Is `c` one of `0-9 a-f A-F`? -/
def isHexChar (c : UInt8) : Bool := (hexVal c).isSome

/-- Is `c` one of `0-9 a-f`? -/
def isLowerHexChar (c : UInt8) : Bool :=
  (48 ≤ c.toNat && c.toNat ≤ 57) || (97 ≤ c.toNat && c.toNat ≤ 102)

/-- Upper-case hex digit of `n < 16`. -/
def hexDigitUpper (n : Nat) : UInt8 :=
  if n < 10 then UInt8.ofNat (48 + n) else UInt8.ofNat (55 + n)

/-- upper-case hex of a byte string (`hex::encode_upper`), as ASCII bytes -/
def hexUpper : Bytes → Bytes
  | [] => []
  | b :: bs => hexDigitUpper (b.toNat / 16) :: hexDigitUpper (b.toNat % 16) :: hexUpper bs

/-- `hex::decode` / `Vec::<u8>::from_hex`. -/
def fromHex : Bytes → Option Bytes
  | [] => some []
  | [_] => none
  | a :: b :: rest =>
      match hexVal a, hexVal b, fromHex rest with
      | some h, some l, some r => some (UInt8.ofNat (h * 16 + l) :: r)
      | _, _, _ => none

/-- `<[u8; 32] as FromHex>::from_hex`. -/
def fromHex32 (s : Bytes) : Option Bytes :=
  if s.length % 2 ≠ 0 then none            -- OddLength
  else if s.length / 2 ≠ 32 then none      -- InvalidStringLength
  else fromHex s                           -- InvalidHexCharacter

/-- Total "value of a hex text": pairs of digits packed into bytes (invalid digits count as 0, a
    trailing odd digit is dropped).  Only used in specifications, where all digits are valid. -/
def packHex : Bytes → Bytes
  | a :: b :: rest => UInt8.ofNat ((hexVal a).getD 0 * 16 + (hexVal b).getD 0) :: packHex rest
  | _ => []

end EnrVerif
