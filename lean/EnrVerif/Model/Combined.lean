/-
  `CombinedKey` secret import/export (`src/keys/combined.rs`): `secp256k1_from_bytes`,
  `ed25519_from_bytes`, `encode`, `public`.  An import returns the key (or `none`) and the caller's
  buffer after the call (`bytes.zeroize()` runs only on success).
-/
import EnrVerif.Model.Schemes

namespace EnrVerif

structure CombinedKey where
  isSecp : Bool
  /-- the 32 secret bytes (`SigningKey::to_bytes`) -/
  secret : Bytes
  deriving DecidableEq, Repr

namespace CombinedKey

/-- `secp256k1_from_bytes`: `k256::ecdsa::SigningKey::from_slice` accepts 24..=32 bytes (shorter
    inputs are left-padded) and requires `0 < d < n`. -/
def secpFromBytes (b : Bytes) : Option CombinedKey × Bytes :=
  if b.length < 24 ∨ 32 < b.length then (none, b)
  else
    let d := beToNat b
    if d = 0 ∨ Secp.n ≤ d then (none, b)
    else (some ⟨true, natToBeFixed 32 d⟩, List.replicate b.length 0)

/-- `ed25519_from_bytes`: exactly 32 bytes, every value is a valid seed. -/
def edFromBytes (b : Bytes) : Option CombinedKey × Bytes :=
  if b.length ≠ 32 then (none, b) else (some ⟨false, b⟩, List.replicate b.length 0)

/-- `encode()` -/
def encode (k : CombinedKey) : Bytes := k.secret

/-- `public().encode()`: the independent derivation of the public key from the secret -/
def publicBytes (k : CombinedKey) : Option Bytes :=
  if k.isSecp then (Secp.scalarMulG (beToNat k.secret)).map Secp.compress
  else Ed.secretToPubBytes k.secret

end CombinedKey
end EnrVerif
