/-
  Reading several records from one buffer: back to back (a caller looping on `decode`) and as an
  RLP list (`<Vec<Enr<K>> as Decodable>::decode`, i.e. alloy-rlp's `decode_append`).
-/
import EnrVerif.Model.Enr

set_option linter.unusedVariables false

namespace EnrVerif

theorem decode_rest_lt (S : Scheme) (buf : Bytes) (r : Record) (rest : Bytes)
    (h : decode S buf = .ok (r, rest)) : rest.length < buf.length := by
  unfold decode at h
  split at h
  · simp at h
  · split at h
    · simp at h
    · split at h
      · simp at h
      · rename_i payload rest' hb
        split at h
        · simp at h
        · simp only [Except.ok.injEq, Prod.mk.injEq] at h
          rw [← h.2]
          exact decodeBytes_rest_lt _ _ _ _ hb

/-- `while !buf.is_empty() { Enr::decode(&mut buf)? }` -/
def decodeMany (S : Scheme) (buf : Bytes) : Except RlpErr (List Record) :=
  if buf.isEmpty then .ok []
  else
    match h : decode S buf with
    | .error e => .error e
    | .ok (r, rest) =>
      match decodeMany S rest with
      | .error e => .error e
      | .ok rs => .ok (r :: rs)
termination_by buf.length
decreasing_by exact decode_rest_lt S _ _ _ h

/-- `Vec::<Enr<K>>::decode(buf)`: the records and the buffer after the list -/
def decodeList (S : Scheme) (buf : Bytes) : Except RlpErr (List Record × Bytes) :=
  match decodeBytes buf true with
  | .error e => .error e
  | .ok (payload, rest) =>
    match decodeMany S payload with
    | .error e => .error e
    | .ok rs => .ok (rs, rest)

/-- concatenated encodings -/
def encodeAll : List Record → Bytes
  | [] => []
  | r :: rs => r.encode ++ encodeAll rs

end EnrVerif
