def hello := "world"
