#!/usr/bin/env python3
"""Per-property check: proof obligations (Lean) + correspondence of the Lean model with /repo's
current working tree (Rust harness -> traces -> compiled Lean driver) + property predicates
evaluated on the implementation's observations.

  check.py <Cxx> [--tier quick|thorough] [--seed N]
  check.py <Cxx> --replay <case-file>

exit 0: property held on everything explored; exit 1 + `VIOLATION property=<id> replay=<path>`.
"""
import argparse
import concurrent.futures as cf
import hashlib
import json
import os
import re
import shutil
import subprocess
import sys
import time

ROOT = os.path.dirname(os.path.abspath(__file__))
LEAN = os.path.join(ROOT, "lean")
# development only (regression runs over the seeded changes without touching /repo): VERIF_ALT=<dir>
# makes the check use <dir>/repo, a harness copy <dir>/harness that depends on it, and <dir>/out
ALT = os.environ.get("VERIF_ALT")
REPO = os.path.join(ALT, "repo") if ALT else "/repo"
HARNESS = os.path.join(ALT, "harness") if ALT else os.path.join(ROOT, "harness")
OUT = os.path.join(ALT, "out") if ALT else os.path.join(ROOT, "out")
MODEL = os.path.join(LEAN, ".lake", "build", "bin", "enr_model")
HBIN = os.path.join(HARNESS, "target", "debug", "enr-harness")
# the same harness built without debug assertions and overflow checks (profile `nodebug`): code
# under debug_assert!/cfg(debug_assertions) behaves differently there; families named "<fam>@nodebug"
HBIN_ND = os.path.join(HARNESS, "target", "nodebug", "enr-harness")


def hbin(fam_or_path):
    return HBIN_ND if "@nodebug" in fam_or_path or "nodebug-" in os.path.basename(fam_or_path) else HBIN
ALLOWED_AXIOMS = {"propext", "Classical.choice", "Quot.sound"}
BANNED = re.compile(r"\b(sorry|admit|native_decide|bv_decide|implemented_by|unsafe)\b|^\s*axiom\s|maxHeartbeats\s+0\b")
NCHUNK = 16

# which case families a property's check runs
FAMILIES = {
    "C01": ["dec", "hist", "stream"],
    "C02": ["dec"],
    "C03": ["dec", "stream", "txt", "nid", "ck", "hist", "size", "acc", "eq", "deep", "hist@nodebug"],
    "C04": ["dec", "hist", "acc"],
    "C05": ["hist", "size", "acc", "eq", "hist@nodebug"],
    "C06": ["hist", "size", "hist@nodebug"],
    "C07": ["hist", "size", "acc", "hist@nodebug", "dec"],
    "C08": ["hist", "acc", "size", "hist@nodebug"],
    "C09": ["size", "hist", "dec"],
    "C10": ["dec", "hist", "ck"],
    "C11": ["dec", "stream", "hist"],
    "C12": ["txt", "hist"],
    "C13": ["stream", "dec"],
    "C14": ["acc", "hist"],
    "C15": ["eq", "hist"],
    "C16": ["nid"],
    "C17": ["ck"],
}

# which model/implementation disagreements (DIFF field prefixes) break the tie a property's
# theorems rest on.  A field that matches no entry is owned by every property that sees it.
FIELD_OWNERS = [
    (r"dec\.res$", ["C02", "C01"]),
    (r"dec\.(seq|nid|sig|pairs)$", ["C04", "C11"]),
    (r"dec\.nid$", ["C10"]),
    (r"dec\.used$", ["C13", "C04"]),
    (r"(dec|init|step)\.enc$", ["C04", "C09"]),
    (r"(dec|init|step)\.size$", ["C09"]),
    (r"txt\.", ["C12"]),
    (r"many\.", ["C13"]),
    (r"(build|step)\.res$", ["C08", "C09", "C07", "C06"]),
    (r"step\.ret$", ["C08"]),
    (r"(build|step)\.pairs$", ["C08", "C05"]),
    (r"(build|step)\.seq$", ["C07"]),
    (r"(build|step)\.nid$", ["C10", "C05"]),
    (r"(build|step)\.sig$", ["C05", "C06"]),
    (r"(build|step)\.(signreq|signcalls)$", ["C05", "C06", "C01"]),
    (r"acc\.(id|ip4|ip6|tcp4|tcp6|udp4|udp6|udp4s|udp6s|tcp4s|tcp6s|udpr|tcpr|client|get|gd)$", ["C14"]),
    (r"acc\.(text|disp)$", ["C12"]),
    (r"acc\.encs$", ["C04"]),
    (r"acc\.rtseq$", ["C07"]),
    (r"acc\.(pk|pkkey|nidpk|nidconv)$", ["C10"]),
    (r"acc\.(dbg|conv)$", ["C03"]),
    (r"acc\.xdec$", ["C11"]),
    (r"cmp\.", ["C15"]),
    (r"nid\.", ["C16"]),
    (r"ck\.", ["C17"]),
]


def owners(field):
    out = []
    for pat, props in FIELD_OWNERS:
        if re.match(pat, field):
            out += props
    return out


def run(cmd, cwd=None, timeout=None, env=None):
    try:
        p = subprocess.run(cmd, cwd=cwd, stdout=subprocess.PIPE, stderr=subprocess.STDOUT, timeout=timeout, env=env)
    except subprocess.TimeoutExpired as ex:
        return -9, f"TIMEOUT after {timeout}s: " + (ex.stdout or b"").decode("utf-8", "replace")[-500:]
    return p.returncode, p.stdout.decode("utf-8", "replace")


# ---------------------------------------------------------------------------------------------
# proof obligations

def lean_sources():
    for d, _, fs in os.walk(os.path.join(LEAN, "EnrVerif")):
        for f in fs:
            if f.endswith(".lean"):
                yield os.path.join(d, f)


def strip_comments(text):
    text = re.sub(r"/-.*?-/", "", text, flags=re.S)
    return re.sub(r"--.*", "", text)


CO_OWNED = {
    "C05": (("C10", "node_id_is_hash_of_key"),),
}


def proof_obligations(prop, thorough):
    """Build the property's theorem module, re-check it, audit the axioms of every theorem in it."""
    info = {"module": f"EnrVerif.Props.{prop}", "theorems": [], "failed": []}
    pdir = os.path.join(LEAN, "EnrVerif", "Props")
    # the property's theorem module and any continuation modules Props/<prop><Suffix>.lean
    files = sorted(f for f in os.listdir(pdir) if re.fullmatch(re.escape(prop) + r"[A-Za-z]*\.lean", f))
    src = os.path.join(pdir, f"{prop}.lean")
    if not os.path.exists(src):
        info["failed"].append(f"missing {src}")
        return info
    modules = ["EnrVerif.Props." + f[:-5] for f in files]
    info["modules"] = modules
    rc, out = run(["lake", "build"] + modules + ["enr_model"], cwd=LEAN, timeout=3600)
    if rc != 0:
        info["failed"].append("lake build failed: " + out[-2000:])
        return info
    # banned constructs anywhere in the library
    for f in lean_sources():
        body = strip_comments(open(f).read())
        for i, line in enumerate(body.splitlines()):
            if BANNED.search(line):
                info["failed"].append(f"banned construct in {os.path.relpath(f, LEAN)}: {line.strip()[:80]}")
    names = []
    for f in files:
        names += re.findall(r"^theorem\s+([A-Za-z0-9_.'₁₂]+)", strip_comments(open(os.path.join(pdir, f)).read()), flags=re.M)
    audit_dir = os.path.join(OUT, prop)
    os.makedirs(audit_dir, exist_ok=True)
    audit = os.path.join(audit_dir, "Audit.lean")
    with open(audit, "w") as fh:
        for m in modules:
            fh.write(f"import {m}\n")
        fh.write("open EnrVerif\n")
        for n in names:
            fh.write(f"#print axioms {n}\n")
    rc, out = run(["lake", "env", "lean", audit], cwd=LEAN, timeout=1800)
    if rc != 0:
        info["failed"].append("axiom audit failed: " + out[-1500:])
        return info
    # parse "'name' depends on axioms: [a, b]" / "'name' does not depend on any axioms"
    out1 = re.sub(r"\s+", " ", out)
    for n in names:
        m = re.search(r"'(?:EnrVerif\.)?" + re.escape(n) + r"' (does not depend on any axioms|depends on axioms: \[([^\]]*)\])", out1)
        if not m:
            info["failed"].append(f"no axiom report for {n}")
            continue
        axs = [a.strip() for a in (m.group(2) or "").split(",") if a.strip()]
        bad = [a for a in axs if a not in ALLOWED_AXIOMS]
        info["theorems"].append({"name": n, "axioms": axs})
        if bad:
            info["failed"].append(f"{n} depends on {bad}")
    if thorough:
        rc, out = run(["lake", "env", "leanchecker"] + modules, cwd=LEAN, timeout=3600)
        info["leanchecker_rc"] = rc
        if rc != 0:
            info["failed"].append("leanchecker: " + out[-800:])
    return info


# ---------------------------------------------------------------------------------------------
# correspondence

def mine_keys():
    """string literals of /repo/src (1..16 printable bytes): keys the code mentions by name"""
    keys = set()
    for d, _, fs in os.walk(os.path.join(REPO, "src")):
        for f in fs:
            if f.endswith(".rs"):
                try:
                    text = open(os.path.join(d, f), errors="replace").read()
                except OSError:
                    continue
                for m in re.finditer(r'b?"([A-Za-z0-9_.:\-]{1,16})"', text):
                    keys.add(m.group(1))
    os.makedirs(OUT, exist_ok=True)
    path = os.path.join(OUT, "mined_keys.txt")
    with open(path, "w") as fh:
        for k in sorted(keys):
            fh.write(k.encode().hex() + "\n")
    os.environ["VERIF_EXTRA_KEYS"] = path
    return sorted(keys)


def build_harness(nodebug=False):
    env = dict(os.environ, CARGO_NET_OFFLINE="true")
    lock = os.path.join(HARNESS, "Cargo.lock")
    if not os.path.exists(lock):
        shutil.copy(os.path.join(REPO, "Cargo.lock"), lock)
    rc, out = run(["cargo", "build", "--offline"], cwd=HARNESS, timeout=3600, env=env)
    if rc == 0 and nodebug:
        rc, out2 = run(["cargo", "build", "--offline", "--profile", "nodebug"], cwd=HARNESS, timeout=3600, env=env)
        out += out2
    return rc, out


def model_on(path):
    rc, out = run([MODEL, path], timeout=7200)
    return path, rc, out


def campaign(prop, fam, tier, seed, workdir):
    """generate + execute one family on the implementation, replay on the model"""
    prefix = os.path.join(workdir, f"{fam}-{seed}")
    for f in os.listdir(workdir):
        if f.startswith(f"{fam}-{seed}."):
            os.remove(os.path.join(workdir, f))
    t0 = time.time()
    # a call of the library that does not return shows up as a harness that does not finish
    rc, out = run([hbin(fam), "gen", fam.split("@")[0], tier, str(seed), prefix, str(NCHUNK)], timeout=1200 if tier == "quick" else 5400)
    if rc != 0:
        # the process died (a stack overflow or abort cannot be caught): when the family wrote its case
        # scripts first, the first case without a completed trace is the culprit
        cases_file = prefix + ".cases"
        if os.path.exists(cases_file):
            done = 0
            tr = prefix + ".0.trace"
            if os.path.exists(tr):
                done = sum(1 for l in open(tr) if l.startswith("end"))
            scripts = open(cases_file).read().split("end\n")
            culprit = (scripts[done] + "end\n") if done < len(scripts) else ""
            return {"fam": fam, "abort": {"rc": rc, "case_index": done, "script": culprit,
                                          "stderr": out[-400:]}}
        if rc == -9:
            return {"fam": fam, "error": "harness did not finish (a library call may not terminate): " + out[-300:], "timeout": True}
        return {"fam": fam, "error": "harness failed: " + out[-1500:]}
    traces = sorted(os.path.join(workdir, f) for f in os.listdir(workdir)
                    if f.startswith(f"{fam}-{seed}.") and f.endswith(".trace"))
    t1 = time.time()
    res = {"fam": fam, "seed": seed, "traces": traces, "diffs": [], "props": [], "cov": set(), "stats": {},
           "gen_s": round(t1 - t0, 2)}
    with cf.ThreadPoolExecutor(max_workers=NCHUNK) as ex:
        for path, rc, out in ex.map(model_on, traces):
            if rc != 0:
                res["error"] = f"model driver failed on {path}: {out[-500:]}"
                continue
            for line in out.splitlines():
                if line.startswith("COV "):
                    res["cov"].add(line[4:])
                elif line.startswith("DIFF "):
                    res["diffs"].append((path, line))
                elif line.startswith("PROP "):
                    res["props"].append((path, line))
                elif line.startswith("STAT "):
                    _, k, v = line.split()
                    res["stats"][k] = res["stats"].get(k, 0) + int(v)
    res["model_s"] = round(time.time() - t1, 2)
    return res


def tok(line, key):
    m = re.search(r"(?:^| )" + re.escape(key) + r"=(\S+)", line)
    return m.group(1) if m else None


def extract_block(trace, lineno):
    """the case (or single input with its observation lines) around a driver line number"""
    lines = open(trace).read().splitlines()
    i = max(0, min(lineno - 1, len(lines) - 1))
    # inside a case?
    start = i
    while start >= 0 and not lines[start].startswith("case ") and not lines[start].startswith("end"):
        start -= 1
    if start >= 0 and lines[start].startswith("case "):
        end = i
        while end < len(lines) and not lines[end].startswith("end"):
            end += 1
        return lines[start:end + 1]
    # stateless line: back to the input line
    j = i
    heads = ("dec ", "txt ", "json ", "jsondoc ", "decmany ", "declist ", "nid ", "ck ")
    while j >= 0 and not lines[j].startswith(heads):
        j -= 1
    j = max(j, 0)
    k = j + 1
    while k < len(lines) and lines[k].startswith(("out ", "rec ", "acc ", "other ")):
        k += 1
    return lines[j:k]


def still_fails(lines, prop, pred, workdir, binary=None):
    cand = os.path.join(workdir, "shrink.case")
    tr = os.path.join(workdir, "shrink.trace")
    with open(cand, "w") as fh:
        fh.write("\n".join(lines) + "\n")
    rc, _ = run([binary or HBIN, "replay", cand, tr], timeout=120)
    if rc != 0:
        return False
    _, rc, out = model_on(tr)
    return any(l.startswith(f"PROP {prop} FAIL pred={pred} ") for l in out.splitlines())


def shrink_case(block, prop, pred, workdir, binary=None):
    """greedy minimisation of an operation history: drop steps while the same predicate keeps failing"""
    inputs = [l for l in block if l.startswith(("case ", "key ", "init ", "step ", "end"))]
    if not any(l.startswith("case ") for l in inputs):
        return block, 0
    head = [l for l in inputs if l.startswith(("case ", "key ", "init "))]
    steps = [l for l in inputs if l.startswith("step ")]
    if not still_fails(head + steps + ["end"], prop, pred, workdir, binary):
        return block, 0
    removed = 0
    # drop a suffix first, then single steps from the end
    lo = len(steps)
    while lo > 0 and still_fails(head + steps[:lo - 1] + ["end"], prop, pred, workdir, binary):
        lo -= 1
        removed += 1
    steps = steps[:lo]
    i = len(steps) - 1
    budget = 200
    while i >= 0 and budget > 0:
        cand = steps[:i] + steps[i + 1:]
        budget -= 1
        if still_fails(head + cand + ["end"], prop, pred, workdir, binary):
            steps = cand
            removed += 1
        i -= 1
    return head + steps + ["end"], removed


def load_known():
    p = os.path.join(ROOT, "known_findings.json")
    if not os.path.exists(p):
        return []
    return [e for e in json.load(open(p)).get("findings", []) if e.get("status") == "known"]


def matches_known(entry, prop, line, block):
    if entry.get("property") != prop:
        return False
    m = entry.get("match", {})
    if "pred" in m and tok(line, "pred") != m["pred"]:
        return False
    text = line + "\n" + "\n".join(block)
    for rx in m.get("all_regex", []):
        if not re.search(rx, text):
            return False
    return True


def main():
    ap = argparse.ArgumentParser()
    ap.add_argument("prop")
    ap.add_argument("--tier", default=os.environ.get("VERIF_TIER", "quick"))
    ap.add_argument("--seed", type=int, default=int(os.environ.get("VERIF_SEED", "1")))
    ap.add_argument("--replay")
    a = ap.parse_args()
    prop = a.prop
    tier = "thorough" if a.tier == "thorough" else "quick"
    t0 = time.time()
    workdir = os.path.join(OUT, prop)
    os.makedirs(workdir, exist_ok=True)
    for f in os.listdir(workdir):
        if f.startswith("violation-") and not a.replay:
            os.remove(os.path.join(workdir, f))     # replay files of an earlier run
    violations = []     # (kind, replay path, text)
    known_hits = []

    # 1. proof obligations (VERIF_SKIP_LEAN=1 is for development experiments only: it reuses the
    #    driver binary and skips the proof re-check; the registered commands never set it)
    if os.environ.get("VERIF_SKIP_LEAN") == "1":
        po = {"module": "skipped", "theorems": [], "failed": []}
    else:
        po = proof_obligations(prop, tier == "thorough")

    # 2. the tie: rebuild the harness against /repo's working tree
    mined = mine_keys()
    need_nd = any("@nodebug" in f for f in FAMILIES[prop]) or bool(a.replay and "profile=nodebug" in open(a.replay, errors="replace").read(2000))
    rc, out = build_harness(need_nd)
    harness_ok = rc == 0
    results = []
    if a.replay:
        if harness_ok:
            tr = os.path.join(workdir, "replay.trace")
            rc, o = run([HBIN_ND if "profile=nodebug" in open(a.replay, errors="replace").read(2000) else HBIN, "replay", a.replay, tr])
            _, rc2, mo = model_on(tr)
            bad = [l for l in mo.splitlines() if l.startswith(("PROP " + prop, "DIFF "))]
            print("\n".join(l for l in mo.splitlines() if l.startswith(("PROP", "DIFF", "STAT"))))
            if bad:
                print(f"VIOLATION property={prop} replay={a.replay}")
                sys.exit(1)
            sys.exit(0)
        print(out[-3000:])
        sys.exit(2)

    def fam_tier(fam):
        # the exhaustive sweep over all 65536 ports (family acc, thorough) belongs to C14; the other
        # properties that use the family run it at its quick size
        if fam == "acc" and prop != "C14":
            return "quick"
        return tier

    if harness_ok:
        for fam in FAMILIES[prop]:
            results.append(campaign(prop, fam, fam_tier(fam), a.seed, workdir))

    def own_props(r):
        # predicates another property's module owns but whose failure is a failing input for this one too
        # (C05's text includes "has a node id equal to the hash of that public key")
        co = CO_OWNED.get(prop, ())
        return [(p, l) for (p, l) in r.get("props", [])
                if l.startswith(f"PROP {prop} ") or any(l.startswith(f"PROP {q} FAIL pred={pr} ") for (q, pr) in co)]

    def own_diffs(r):
        outl = []
        for (p, l) in r.get("diffs", []):
            f = tok(l, "field") or ""
            o = owners(f)
            if not o or prop in o:
                outl.append((p, l))
        return outl

    def record_violation(kind, path, line, suffix=""):
        n = len(violations) + len(known_hits)
        lineno = int(tok(line, "line") or 1)
        block = extract_block(path, lineno) if path else []
        for e in load_known():
            if matches_known(e, prop, line, block):
                known_hits.append((e, line))
                return
        removed = 0
        pred = tok(line, "pred")
        if pred and block and block[0].startswith("case ") and len(violations) < 3:
            try:
                owner = line.split()[1] if line.startswith("PROP ") and len(line.split()) > 1 else prop
                block, removed = shrink_case(block, owner, pred, workdir, hbin(path))
            except Exception as ex:  # shrinking is best effort
                removed = 0
        rp = os.path.join(workdir, f"violation-{n}.case")
        with open(rp, "w") as fh:
            fh.write(f"# {kind}\n# {line}\n# shrunk: {removed} steps removed\n")
            if path and "@nodebug" in path:
                fh.write("# profile=nodebug (harness built without debug assertions and overflow checks)\n")
            fh.write("\n".join(block) + "\n")
        violations.append((kind, rp, line + suffix))

    broken_tie = []
    for r in results:
        if "abort" in r:
            rp = os.path.join(workdir, f"violation-abort-{r['fam']}.case")
            with open(rp, "w") as fh:
                fh.write(f"# the process executing this case was killed (rc={r['abort']['rc']}): {r['abort']['stderr'].strip()[-200:]}\n")
                fh.write(r["abort"]["script"])
            if prop == "C03":
                violations.append(("the library aborted the process (stack overflow / abort) instead of returning an error", rp,
                                   f"PROP C03 FAIL pred=no_abort family={r['fam']} case_index={r['abort']['case_index']}"))
            else:
                broken_tie.append(("harness process aborted", None, f"family {r['fam']} rc={r['abort']['rc']}"))
            continue
        if "error" in r:
            kind = "C03: a library call did not return within the time limit" if (r.get("timeout") and prop == "C03") else "harness-or-driver-error"
            broken_tie.append((kind, None, r["error"]))
        seen = set()
        for (p, l) in own_props(r):
            key = (tok(l, "pred"), tok(l, "ctx"))
            if key in seen:
                continue
            seen.add(key)
            if len(violations) < 8:
                record_violation("property predicate fails on the implementation", p, l)
        for (p, l) in own_diffs(r):
            broken_tie.append(("model/implementation disagreement", p, l))
    if not harness_ok:
        broken_tie.append(("harness does not build against /repo", None, out[-1500:]))
    for f in po["failed"]:
        broken_tie.append(("proof obligation", None, f))

    # 3. a broken tie or proof obligation without a failing input: search harder
    searched = []
    if broken_tie and not violations and harness_ok:
        for extra_seed in [a.seed + 101, a.seed + 202, a.seed + 303]:
            for fam in FAMILIES[prop]:
                r = campaign(prop, fam, fam_tier(fam), extra_seed, workdir)
                searched.append({"fam": fam, "seed": extra_seed})
                for (p, l) in own_props(r):
                    record_violation("property predicate fails on the implementation (found by escalated search)", p, l)
                    break
            if violations:
                break
    if broken_tie and not violations and not known_hits:
        kind, p, l = broken_tie[0]
        rp = os.path.join(workdir, "violation-tie.case")
        with open(rp, "w") as fh:
            fh.write(f"# no failing input found for {prop}; what no longer checks:\n")
            for (k, pp, ll) in broken_tie[:20]:
                fh.write(f"# {k}: {ll[:1500]}\n")
            if p:
                lineno = int(tok(l, "line") or 1)
                fh.write("\n".join(extract_block(p, lineno)) + "\n")
        violations.append((kind, rp, "no-failing-input-found"))

    # 4. evidence
    evals = sum(r.get("stats", {}).get("inputs", 0) for r in results)
    nlines = sum(r.get("stats", {}).get("lines", 0) for r in results)
    checks = sum(r.get("stats", {}).get("checks", 0) for r in results)
    cov = set()
    for r in results:
        cov |= r.get("cov", set())
    samples = []
    for r in results:
        if r.get("traces"):
            with open(r["traces"][0]) as fh:
                head = [next(fh, "").rstrip("\n")[:600] for _ in range(4)]
            samples.append({"family": r["fam"], "first_lines": [h for h in head if h]})
    dist = {}
    for c in cov:
        parts = c.split("/")
        k = "/".join(parts[:1] + parts[2:4]) if len(parts) > 3 else c
        dist[k] = dist.get(k, 0) + 1
    n_thm = len(po["theorems"])
    ok_thm = sum(1 for t in po["theorems"] if all(x in ALLOWED_AXIOMS for x in t["axioms"]))
    ev = {
        "property_id": prop,
        "tier": tier,
        "seed": a.seed,
        "level": "proof",
        "coverage": {
            "obligations": max(n_thm, 1) if not po["failed"] else max(n_thm, 1) + len(po["failed"]),
            "discharged": ok_thm if not po["failed"] else max(ok_thm - 0, 0),
            "checker_cmd": f"cd /verif/lean && lake build {' '.join(po.get('modules') or ['EnrVerif.Props.' + prop])} && lake env lean /verif/out/{prop}/Audit.lean"
                           + (f" && lake env leanchecker {' '.join(po.get('modules') or ['EnrVerif.Props.' + prop])}" if tier == "thorough" else ""),
            "trusted_base": [
                "Lean 4.33 kernel" + (" + leanchecker re-check" if tier == "thorough" else ""),
                "axioms: subset of {propext, Classical.choice, Quot.sound} (audited per theorem with #print axioms)",
                "hand-written Lean model tied to /repo by the correspondence check (Rust harness + compiled Lean driver enr_model): differential testing, not proof",
                "modelled not verified: alloy-rlp, bytes, base64, hex, serde_json, BTreeMap, k256, secp256k1, ed25519-dalek, sha3 behaviour (re-implemented in Lean, compared on every run)",
                "Lean compiler/runtime executing the model definitions the kernel checked",
            ],
            "theorems": po["theorems"],
            "proof_failures": po["failed"],
            "evaluations": evals,
            "distinct_nontrivial": len(cov),
            "rule": "cases are generated by the harness families " + ",".join(FAMILIES[prop]) +
                    " from one SplitMix64 seed; a case class is (family, scheme, tag/op, implementation outcome, model branch/error kind, signer role); distinct_nontrivial counts distinct classes hit",
            "traces_validated_against_impl": evals,
            "comparisons": checks,
            "trace_lines": nlines,
            "signature_verifications_by_model": sum(r.get("stats", {}).get("verifications", 0) for r in results),
            "model_impl_disagreements": sum(len(r.get("diffs", [])) for r in results),
            "property_predicate_failures": sum(len(own_props(r)) for r in results),
            "other_property_predicate_failures": sum(len(r.get("props", [])) - len(own_props(r)) for r in results),
            "class_distribution": dict(sorted(dist.items(), key=lambda kv: -kv[1])[:60]),
            "families": [{k: r.get(k) for k in ("fam", "seed", "gen_s", "model_s", "stats")} for r in results],
            "escalated_search": searched,
            "keys_mined_from_source": mined,
            "samples": samples,
        },
        "assumptions": [
            "the signing oracle's answers are checked with the model's own ECDSA/EdDSA/Keccak code (SigOK evaluated on every signature)",
            "cryptographic hardness (unforgeability, collision resistance) is outside every theorem",
        ],
        "wall_s": round(time.time() - t0, 2),
        "violations": len(violations),
    }
    os.makedirs(os.path.join(ROOT, "evidence"), exist_ok=True)
    evdir = workdir if os.environ.get("VERIF_SKIP_LEAN") == "1" else os.path.join(ROOT, "evidence")
    with open(os.path.join(evdir, f"{prop}.json"), "w") as fh:
        json.dump(ev, fh, indent=1, default=list)

    for (e, line) in known_hits[:20]:
        print(f"KNOWN-FINDING: property={prop} {e.get('what', '')}")
    if violations:
        for (kind, rp, text) in violations[:8]:
            print(f"# {kind}: {text[:400]}")
        kind, rp, text = violations[0]
        tail = " no-failing-input-found" if text.endswith("no-failing-input-found") else ""
        print(f"VIOLATION property={prop} replay={rp}{tail}")
        sys.exit(1)
    print(f"OK property={prop} tier={tier} theorems={n_thm} cases={evals} classes={len(cov)} comparisons={checks} wall={ev['wall_s']}s")
    sys.exit(0)


if __name__ == "__main__":
    main()
