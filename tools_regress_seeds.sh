#!/bin/sh
# usage: tools_regress_seeds.sh [seed-dir...] : re-runs the check named in each kept seed's meta.json against a
# scratch worktree with the seed applied (never touches /repo's working tree); a detected seed must
# still be detected.  Scratch: /tmp/regress (removed at the end).
set -u
R=${REG_LANE:-/tmp/regress}
rm -rf $R; mkdir -p $R
git -C /repo worktree add --detach $R/repo HEAD -f >/dev/null 2>&1 || exit 2
rsync -a --exclude target /verif/harness/ $R/harness/
sed -i "s#path = \"/repo\"#path = \"$R/repo\"#" $R/harness/Cargo.toml
seeds="$@"; [ -z "$seeds" ] && seeds=$(ls -d /verif/seeded/C*)
: > $R/result.txt
for d in $seeds; do
  by=$(python3 -c "import json;print(json.load(open('$d/meta.json')).get('detected_by','').split(',')[0].strip())")
  [ "$by" = "none" ] && { echo "$(basename $d) skipped (documented miss)" >> $R/result.txt; continue; }
  git -C $R/repo checkout -q -- . ; git -C $R/repo apply $d/patch.diff || { echo "$(basename $d) PATCH-FAILS" >> $R/result.txt; continue; }
  VERIF_ALT=$R VERIF_SKIP_LEAN=1 python3 /verif/check.py $by --tier quick > $R/log.txt 2>&1; rc=$?
  echo "$(basename $d) $by exit=$rc $(grep -E '^(VIOLATION|OK)' $R/log.txt | head -1 | cut -c1-110)" >> $R/result.txt
done
git -C $R/repo checkout -q -- .
cp $R/result.txt ${R}_result.txt
git -C /repo worktree remove --force $R/repo; rm -rf $R
