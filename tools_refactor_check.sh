#!/bin/sh
# usage: tools_refactor_check.sh <dir> <prop>... : a behaviour-preserving patch must not raise any alarm
d=$1; shift
git -C /repo apply $d/patch.diff || { echo "patch does not apply"; exit 2; }
( cd /repo && CARGO_NET_OFFLINE=true cargo test --offline 2>&1 | grep -E "^test result" | head -1 )
for p in "$@"; do
  VERIF_SKIP_LEAN=1 python3 /verif/check.py $p --tier quick > /tmp/rf_$p.log 2>&1; rc=$?
  echo "== $(basename $d) check $p exit=$rc: $(grep -E '^(VIOLATION|OK|KNOWN)' /tmp/rf_$p.log | head -1 | cut -c1-160)"
  grep -E '^# ' /tmp/rf_$p.log | head -2 | cut -c1-300
done
git -C /repo checkout -- .
